"""In-loop TCP model for `loop.create_server` (used by the health-check server).

Follows asyncio's selector transports: accepting a connection is an I/O event that calls the
protocol factory and schedules `connection_made`; every client `send` arrives as one
`data_received` call (fragmentation is the client's choice); an exception in `data_received` goes
to the loop's exception handler and force-closes the connection without a reply; `transport.close()`
flushes what was written and then reports `connection_lost(None)`.
"""
from __future__ import annotations

import asyncio


class VTransport(asyncio.Transport):
    def __init__(self, conn):
        super().__init__()
        self.conn = conn
        self._closing = False

    def write(self, data):
        if self._closing:
            return
        self.conn.received += bytes(data)

    def close(self):
        if self._closing:
            return
        self._closing = True
        self.conn.loop.call_soon(self.conn._lost, None)

    def abort(self):
        self.close()

    def is_closing(self):
        return self._closing

    def get_extra_info(self, name, default=None):
        return {"peername": ("127.0.0.1", 50000 + self.conn.n), "sockname": ("127.0.0.1", self.conn.port)}.get(name, default)

    def can_write_eof(self):
        return True

    def write_eof(self):
        pass


class VConn:
    """Client side of one connection."""

    def __init__(self, net, n, port, listener):
        self.net = net
        self.loop = net.loop
        self.n = n
        self.port = port
        self.listener = listener
        self.protocol = None
        self.transport = None
        self.received = b""
        self.closed_by_server = False
        self.error = None
        self.accepted = False
        self.loop.post_io(self._accept)

    def _accept(self):
        if not self.listener.serving:
            self.closed_by_server = True  # RST: listener went away before the accept
            return
        self.protocol = self.listener.factory()
        self.transport = VTransport(self)
        self.accepted = True
        self.loop.call_soon(self._made)

    def _made(self):
        # the transport starts reading only after connection_made
        self.protocol.connection_made(self.transport)
        self.made = True

    CHUNK = 65536  # a single send larger than this arrives in several reads

    def send(self, data: bytes) -> None:
        data = bytes(data)
        for i in range(0, max(len(data), 1), self.CHUNK):
            self.loop.post_io(self._deliver, data[i:i + self.CHUNK])

    def _deliver(self, data):
        if self.accepted and not getattr(self, "made", False) and not self.closed_by_server:
            self.loop.post_io(self._deliver, data)  # not readable yet
            return
        if self.protocol is None or self.transport is None or self.transport._closing:
            return
        try:
            self.protocol.data_received(data)
        except (SystemExit, KeyboardInterrupt):
            raise
        except BaseException as exc:  # noqa: BLE001 - as asyncio's _read_ready__data_received
            self.loop.call_exception_handler({
                "message": "Fatal error: protocol.data_received() call failed.",
                "exception": exc, "transport": self.transport, "protocol": self.protocol,
            })
            self.transport._closing = True
            self.error = exc
            self.loop.call_soon(self._lost, exc)

    def close(self) -> None:
        """Client closes its side (EOF)."""
        def eof():
            if self.protocol is not None and not self.transport._closing:
                try:
                    self.protocol.eof_received()
                finally:
                    self.transport.close()
        self.loop.post_io(eof)

    def _lost(self, exc):
        if self.closed_by_server:
            return
        self.closed_by_server = True
        try:
            self.protocol.connection_lost(exc)
        except Exception as e:  # noqa: BLE001
            self.loop.call_exception_handler({"message": "connection_lost failed", "exception": e})


class VServer:
    def __init__(self, net, factory, host, port):
        self.net = net
        self.factory = factory
        self.host = host
        self.port = port
        self.serving = False
        self.closed = False

    def is_serving(self):
        return self.serving

    async def start_serving(self):
        await asyncio.sleep(0)
        if not self.closed:
            self.serving = True

    def close(self):
        self.serving = False
        self.closed = True
        self.net.listeners.pop(self.port, None)

    async def wait_closed(self):
        await asyncio.sleep(0)

    @property
    def sockets(self):
        return ()

    def get_loop(self):
        return self.net.loop


class VNet:
    def __init__(self, loop):
        self.loop = loop
        self.listeners: dict[int, VServer] = {}
        self.nconn = 0
        loop.vnet = self

    async def create_server(self, loop, factory, host, port, *, start_serving=True, **kw):
        await asyncio.sleep(0)
        if port in self.listeners and not kw.get("reuse_port"):
            raise OSError(98, "address already in use")
        srv = VServer(self, factory, host, port)
        self.listeners[port] = srv
        if start_serving:
            srv.serving = True
        return srv

    def is_open(self, port) -> bool:
        s = self.listeners.get(port)
        return bool(s is not None and s.serving)

    def connect(self, port) -> VConn | None:
        s = self.listeners.get(port)
        if s is None or not s.serving:
            return None  # connection refused
        self.nconn += 1
        return VConn(self, self.nconn, port, s)
