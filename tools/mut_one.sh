#!/bin/bash
# tools/mut_one.sh <mutant id> <tier> <check>... : apply one mutant of $MUT/mutants.json to a scratch tree and run checks on it
# (development aid; CPUS=12-15 by default so that it can run next to a sweep)
id=$1; tier=$2; shift 2
MUT=${MUT:-/root/mut}
T=$MUT/one$$
mkdir -p $T && rsync -a --exclude .git --exclude __pycache__ --exclude docs --exclude benchmarks --exclude tests /repo/ $T/
python3 - "$id" "$T" <<'PY'
import json,sys
sys.path.insert(0,'/verif/tools')
import mutate
m=[m for m in mutate.load() if m['id']==int(sys.argv[1])][0]
print(f"#{m['id']} {m['file']}:{m['line']} {m['op']}: `{m['old']}` -> `{m['new']}`")
mutate.apply(sys.argv[2],m)
PY
for c in "$@"; do
  REPID_TREE=$T MC_OUT=$MUT/out1 taskset -c ${CPUS:-12-15} timeout 3000 /verif/check $c $tier 2>&1 | grep -v "^KNOWN" | tail -${TAIL:-3} | cut -c1-${WIDTH:-300}
done
rm -rf $T
