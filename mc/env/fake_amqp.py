"""In-process model of a RabbitMQ broker (AMQP 0-9-1, default exchange only) and an
aiormq-shaped connection/channel, limited to what repid uses.

Server semantics (RabbitMQ documentation):
  * classic queues, FIFO, `x-max-priority`: higher priority first, FIFO inside a priority;
    a missing priority counts as 0, values above the maximum are capped
  * per-message TTL (`expiration`, ms): a message is dead-lettered when it has expired AND has
    reached the head of its queue (expiry is only evaluated at the head)
  * dead-lettering (expiry, nack/reject with requeue=False) to the default exchange with
    `x-dead-letter-routing-key`; `expiration` is removed from a dead-lettered message
  * reject/nack with requeue=True puts the message back at its original position
  * basic.qos(global=False) is a per-consumer limit taken over by consumers started afterwards
  * a queue hands its messages to its consumers round-robin, skipping those at their limit
  * basic.cancel stops deliveries; unacked deliveries stay unacked until settled or the
    channel closes; closing the connection requeues them
  * an unknown delivery tag closes the channel (PRECONDITION_FAILED)
Client side: frames of one channel are FIFO; rpc methods wait for the reply, ack/nack/reject
only for the write; every delivery starts one task running the consumer callback
(`Channel._on_deliver_frame`).  Message properties travel through pamqp's real codec.
"""
from __future__ import annotations

import asyncio
import itertools
import json

from aiormq.abc import DeliveredMessage
from pamqp import commands as spec
from pamqp.header import ContentHeader

from ..vloop import NS, HarnessError


def _wire(props):
    """Round-trip properties through the real AMQP header encoding."""
    h = ContentHeader(properties=props, body_size=0)
    raw = h.marshal()
    h2 = ContentHeader()
    h2.unmarshal(raw)
    return h2.properties


class Msg:
    __slots__ = ("body", "props", "expire_ns", "seq", "redelivered")

    def __init__(self, body, props, expire_ns, seq):
        self.body = body
        self.props = props
        self.expire_ns = expire_ns
        self.seq = seq
        self.redelivered = False

    @property
    def prio(self):
        return self.props.priority or 0


class ChannelClosed(ConnectionError):
    pass


class Server:
    def __init__(self, loop, chooser=None):
        self.loop = loop
        self.chooser = chooser
        self.queues: dict[str, list[Msg]] = {}
        self.qargs: dict[str, dict] = {}
        self.seq = itertools.count()
        self.consumers: list[dict] = []  # tag, queue, chan, prefetch, unacked{dtag: Msg}, active
        self.pending: list = []  # [chan, label, fn, fut|None]
        self.cmdlog: list = []
        self._timer = None
        self.reorder = False
        self.late_choice = False  # when True every reply / drain completion may arrive late (choice point)
        self.late: list = []  # completions held back until nothing else can happen at this instant
        self.fail_once: dict = {}  # label prefix -> exception raised by the next client call with that label
        self.rr: dict[str, int] = {}  # per queue: index of the consumer that is served next
        loop.select_hooks.append(self._pump)

    # -- request handling -----------------------------------------------------------------
    def submit(self, chan, label, fn, want_reply=True):
        fut = self.loop.create_future() if want_reply else None
        late = False
        if self.late_choice and self.chooser is not None:
            # the publisher confirm / rpc reply / write-drain of this frame reaches the client only
            # after everything else that happens at this instant (e.g. after a redelivery)
            late = bool(self.chooser.choose(f"late:{label.split('[')[0]}", 2))
        self.pending.append([chan, label, fn, fut, late])
        drain = None
        if not want_reply:
            drain = self.loop.create_future()
            if late:
                self.late.append((drain, None, None))
            else:
                drain.set_result(None)
        return fut if want_reply else drain

    def _complete(self, fut, res, exc, late):
        if late:
            self.late.append((fut, res, exc))
        elif exc is not None:
            self.loop.post_io(_set_exc, fut, exc)
        else:
            self.loop.post_io(_set_res, fut, res)

    def _flush_late(self, loop) -> None:
        # held-back completions arrive once nothing else can happen at this instant
        if self.late and not loop._ready and not loop._io:
            for fut, res, exc in self.late:
                if exc is not None:
                    loop.post_io(_set_exc, fut, exc)
                else:
                    loop.post_io(_set_res, fut, res)
            self.late = []

    def _pump(self, loop) -> None:
        if not self.pending:
            self._flush_late(loop)
            return
        while self.pending:
            i = 0
            if self.reorder and self.chooser is not None:
                # only the head request of each connection may go next (per-connection FIFO)
                heads = []
                seen = set()
                for idx, p in enumerate(self.pending):
                    c = id(p[0].conn)
                    if c not in seen:
                        seen.add(c)
                        heads.append(idx)
                if len(heads) > 1:
                    i = heads[self.chooser.choose("amqp-order", len(heads))]
            chan, label, fn, fut, late = self.pending.pop(i)
            try:
                if chan.is_closed:
                    raise ChannelClosed("channel closed")
                res = fn()
            except BaseException as e:  # noqa: BLE001
                self.cmdlog.append((loop._ns, chan.name, label, "ERR"))
                if fut is not None:
                    self._complete(fut, None, e, late)
                continue
            self.cmdlog.append((loop._ns, chan.name, label, "ok"))
            if fut is not None:
                self._complete(fut, res, None, late)
        self._dispatch()
        self._flush_late(loop)

    def busy(self) -> bool:
        """Something is still on its way between client and server."""
        return bool(self.pending or self.late)

    def drain(self) -> None:
        self._pump(self.loop)

    # -- queue mechanics ---------------------------------------------------------------------
    def declare(self, name, arguments):
        if name not in self.queues:
            self.queues[name] = []
            self.qargs[name] = dict(arguments or {})

    def _put(self, q, m) -> None:
        l = self.queues[q]
        maxp = self.qargs[q].get("x-max-priority")
        l.append(m)
        if maxp is not None:
            l.sort(key=lambda x: (-min(x.prio, maxp), x.seq))
        else:
            l.sort(key=lambda x: x.seq)

    def publish(self, rk, body, props) -> bool:
        if rk not in self.queues:
            return False
        props = _wire(props)
        exp = None
        if props.expiration is not None:
            exp = self.loop._ns + int(props.expiration) * 1_000_000
        self._put(rk, Msg(body, props, exp, next(self.seq)))
        return True

    def _dead_letter(self, q, m) -> None:
        a = self.qargs.get(q, {})
        rk = a.get("x-dead-letter-routing-key")
        if a.get("x-dead-letter-exchange") is None or rk is None or rk not in self.queues:
            return  # dropped
        p = _wire(m.props)
        p.expiration = None
        self._put(rk, Msg(m.body, p, None, next(self.seq)))

    def _dispatch(self) -> None:
        now = self.loop._ns
        progress = True
        while progress:
            progress = False
            for q, l in self.queues.items():
                while l and l[0].expire_ns is not None and l[0].expire_ns <= now:
                    m = l.pop(0)
                    self._dead_letter(q, m)
                    progress = True
            # one message at a time per queue, round-robin over its consumers with capacity
            for q, l in self.queues.items():
                cs = [c for c in self.consumers if c["queue"] == q and c["active"]]
                while l and cs:
                    if l[0].expire_ns is not None and l[0].expire_ns <= now:
                        break  # head expired meanwhile: handled by the expiry pass
                    ready = [c for c in cs if c["prefetch"] == 0 or len(c["unacked"]) < c["prefetch"]]
                    if not ready:
                        break
                    start = self.rr.get(q, 0)
                    order = sorted(ready, key=lambda c: (self.consumers.index(c) - start) % len(self.consumers))
                    c = order[0]
                    self.rr[q] = (self.consumers.index(c) + 1) % len(self.consumers)
                    m = l.pop(0)
                    dtag = c["chan"]._next_dtag()
                    c["unacked"][dtag] = m
                    c["chan"]._deliver(c["tag"], dtag, m, c["queue"])
                    progress = True
        nxt = [l[0].expire_ns for l in self.queues.values() if l and l[0].expire_ns is not None]
        if self._timer is not None:
            self._timer.cancel()
            self._timer = None
        if nxt:
            self._timer = self.loop.call_at(min(nxt) / NS, self._dispatch)

    def _settle(self, chan, dtag):
        for c in self.consumers:
            if c["chan"] is chan and dtag in c["unacked"]:
                return c, c["unacked"].pop(dtag)
        chan._fail(f"PRECONDITION_FAILED - unknown delivery tag {dtag}")
        raise ChannelClosed(f"PRECONDITION_FAILED - unknown delivery tag {dtag}")

    def close_channel(self, chan) -> None:
        for c in list(self.consumers):
            if c["chan"] is chan:
                c["active"] = False
                for dtag, m in sorted(c["unacked"].items()):
                    m.redelivered = True
                    self._put(c["queue"], m)
                c["unacked"].clear()
                self.consumers.remove(c)

    # -- observation -------------------------------------------------------------------------
    def observe(self, world) -> dict:
        from repid.data._parameters import Parameters

        from ..world import params_view

        out: dict = {}

        def add(place, qname, m):
            base = qname
            for suf in (":delayed", ":dead"):
                if qname.endswith(suf):
                    base = qname[: -len(suf)]
            try:
                body = json.loads(m.body)
                params = params_view(Parameters.decode(body["parameters"])) if body["parameters"] else None
                payload = body["payload"]
            except Exception:  # noqa: BLE001
                params, payload = None, None
            hdr = m.props.headers or {}
            out.setdefault(m.props.message_id, []).append(dict(
                place=place, queue=hdr.get("queue", base), topic=hdr.get("topic"), prio=m.props.priority,
                params=params, payload=payload, expiration=m.props.expiration,
            ))

        for qname in sorted(self.queues):
            place = "delayed" if qname.endswith(":delayed") else "dead" if qname.endswith(":dead") else "waiting"
            for m in self.queues[qname]:
                add(place, qname, m)
        for c in self.consumers:
            for dtag, m in sorted(c["unacked"].items()):
                add("held", c["queue"], m)
        return out


def _set_res(fut, res):
    if not fut.done():
        fut.set_result(res)


def _set_exc(fut, exc):
    if not fut.done():
        fut.set_exception(exc)


class Channel:
    def __init__(self, conn, name):
        self.conn = conn
        self.s: Server = conn.s
        self.name = name
        self.consumers: dict = {}
        self.is_closed = False
        self._dtag = itertools.count(1)
        self._ctag = itertools.count(1)
        self._qos = 0
        self.fail_next: list = []

    def _next_dtag(self):
        return next(self._dtag)

    def _fail(self, reason) -> None:
        self.is_closed = True
        self.close_reason = reason
        self.s.close_channel(self)

    # client -> server
    async def _rpc(self, label, fn):
        await asyncio.sleep(0)  # write queue / drain: cancellable, nothing sent yet
        if self.is_closed:
            raise ChannelClosed(getattr(self, "close_reason", "closed"))
        if self.fail_next:
            exc = self.fail_next.pop(0)
            if exc is not None:
                raise exc
        for prefix in list(self.s.fail_once):
            if label.startswith(prefix):
                raise self.s.fail_once.pop(prefix)
        return await self.s.submit(self, label, fn, True)

    async def _cast(self, label, fn):
        await asyncio.sleep(0)
        if self.is_closed:
            raise ChannelClosed(getattr(self, "close_reason", "closed"))
        if self.fail_next:
            exc = self.fail_next.pop(0)
            if exc is not None:
                raise exc
        for prefix in list(self.s.fail_once):
            if label.startswith(prefix):
                raise self.s.fail_once.pop(prefix)
        await self.s.submit(self, label, fn, False)  # the write has drained

    # server -> client
    def _deliver(self, ctag, dtag, m, q) -> None:
        self.s.loop.post_io(self._on_deliver, ctag, dtag, m, q)

    def _on_deliver(self, ctag, dtag, m, q) -> None:
        cb = self.consumers.get(ctag)
        if cb is None:
            return
        h = ContentHeader(properties=_wire(m.props), body_size=len(m.body))
        d = spec.Basic.Deliver(consumer_tag=ctag, delivery_tag=dtag, redelivered=m.redelivered,
                               exchange="", routing_key=q)
        self.s.loop.create_task(cb(DeliveredMessage(delivery=d, header=h, body=m.body, channel=self)))

    # -- aiormq API subset --------------------------------------------------------------------
    async def basic_publish(self, body, *, exchange="", routing_key="", properties=None,
                            mandatory=False, **kw):
        if exchange != "":
            raise HarnessError("only the default exchange is modelled")
        props = properties or spec.Basic.Properties(delivery_mode=1)
        mid = props.message_id

        def run():
            ok = self.s.publish(routing_key, body, props)
            if not ok and mandatory:
                return spec.Basic.Return(reply_code=312, reply_text="NO_ROUTE", exchange="", routing_key=routing_key)
            return spec.Basic.Ack(delivery_tag=0)

        return await self._rpc(f"publish[{routing_key}:{mid}]", run)

    async def basic_ack(self, delivery_tag, multiple=False, wait=True):
        if multiple:
            raise HarnessError("multiple acks not modelled")
        await self._cast(f"ack[{delivery_tag}]", lambda: self.s._settle(self, delivery_tag) and None)

    async def basic_nack(self, delivery_tag, multiple=False, requeue=True, wait=True):
        def run():
            c, m = self.s._settle(self, delivery_tag)
            if requeue:
                m.redelivered = True
                self.s._put(c["queue"], m)
            else:
                self.s._dead_letter(c["queue"], m)

        await self._cast(f"nack[{delivery_tag},requeue={requeue}]", run)

    async def basic_reject(self, delivery_tag, *, requeue=True, wait=True):
        await self.basic_nack(delivery_tag, requeue=requeue)

    async def basic_qos(self, *, prefetch_size=None, prefetch_count=None, global_=False, timeout=None):
        if global_:
            raise HarnessError("global qos not modelled")

        def run():
            self._qos = prefetch_count or 0
            return spec.Basic.QosOk()

        return await self._rpc(f"qos[{prefetch_count}]", run)

    async def basic_consume(self, queue, consumer_callback, *, no_ack=False, exclusive=False,
                            arguments=None, consumer_tag=None, timeout=None):
        if no_ack:
            raise HarnessError("no_ack consumers not modelled")
        tag = consumer_tag or f"ctag.{self.name}.{next(self._ctag)}"
        self.consumers[tag] = consumer_callback

        def run():
            if queue not in self.s.queues:
                self._fail(f"NOT_FOUND - no queue '{queue}'")
                raise ChannelClosed(f"NOT_FOUND - no queue '{queue}'")
            self.s.consumers.append(dict(tag=tag, queue=queue, chan=self, prefetch=self._qos,
                                         unacked={}, active=True))
            return spec.Basic.ConsumeOk(consumer_tag=tag)

        return await self._rpc(f"consume[{queue}]", run)

    async def basic_cancel(self, consumer_tag, *, nowait=False, timeout=None):
        def run():
            for c in self.s.consumers:
                if c["tag"] == consumer_tag and c["chan"] is self:
                    c["active"] = False  # unacked stay until settled or the channel closes
            return spec.Basic.CancelOk(consumer_tag=consumer_tag)

        r = await self._rpc(f"cancel[{consumer_tag}]", run)
        self.consumers.pop(consumer_tag, None)  # as Channel._on_cancel_frame does on CancelOk
        return r

    async def queue_declare(self, queue="", *, durable=False, arguments=None, **kw):
        return await self._rpc(f"declare[{queue}]", lambda: self.s.declare(queue, arguments) or spec.Queue.DeclareOk(queue=queue))

    async def queue_purge(self, queue="", **kw):
        def run():
            if queue in self.s.queues:
                self.s.queues[queue] = []
            return spec.Queue.PurgeOk()

        return await self._rpc(f"purge[{queue}]", run)

    async def queue_delete(self, queue="", **kw):
        def run():
            self.s.queues.pop(queue, None)
            self.s.qargs.pop(queue, None)
            for c in self.s.consumers:
                if c["queue"] == queue:
                    c["active"] = False
            return spec.Queue.DeleteOk()

        return await self._rpc(f"delete[{queue}]", run)

    # harness: the broker cancels a consumer (e.g. queue deleted / HA failover)
    def server_cancel(self, consumer_tag) -> None:
        for c in self.s.consumers:
            if c["tag"] == consumer_tag and c["chan"] is self:
                c["active"] = False
        self.s.loop.post_io(lambda: self.consumers.pop(consumer_tag, None))

    async def close(self):
        self._fail("closed by client")


class Connection:
    def __init__(self, server: Server, name: str):
        self.s = server
        self.name = name
        self.channels: list[Channel] = []
        self.is_closed = False

    async def channel(self, *a, **kw):
        await asyncio.sleep(0)
        ch = Channel(self, f"{self.name}.ch{len(self.channels) + 1}")
        self.channels.append(ch)
        return ch

    async def close(self, *a, **kw):
        await asyncio.sleep(0)
        self.is_closed = True
        for ch in self.channels:
            if not ch.is_closed:
                ch._fail("connection closed")

    def drop(self) -> None:
        """The TCP connection dies (process crash): unacked deliveries are requeued."""
        self.is_closed = True
        for ch in self.channels:
            if not ch.is_closed:
                ch._fail("connection lost")
        self.s._dispatch()


def make_broker(server: Server, name: str):
    import aiormq

    from repid.connections.rabbitmq.message_broker import RabbitMessageBroker

    b = RabbitMessageBroker("amqp://fake.invalid/")
    conn = Connection(server, name)

    async def connect():
        # what RabbitMessageBroker.connect does, with aiormq.connect replaced
        real = aiormq.connect

        async def fake_connect(dsn, *a, **kw):
            await asyncio.sleep(0)
            return conn

        aiormq.connect = fake_connect
        try:
            await RabbitMessageBroker.connect(b)
        finally:
            aiormq.connect = real

    b.connect = connect
    b._fake_conn = conn
    return b


# --------------------------------------------------------------------------------------
def selftest(verbose=False) -> int:
    """Semantics table: priorities, head-only expiry, dead-lettering, requeue position, qos."""
    from ..vloop import VLoop

    bad = 0
    log = []
    loop = VLoop()

    async def prog():
        s = Server(loop)
        conn = Connection(s, "t")
        ch = await conn.channel()
        await ch.queue_declare("q:dead", arguments={"x-max-priority": 9})
        await ch.queue_declare("q", arguments={"x-max-priority": 9, "x-dead-letter-exchange": "",
                                               "x-dead-letter-routing-key": "q:dead"})
        await ch.queue_declare("q:delayed", arguments={"x-max-priority": 9, "x-dead-letter-exchange": "",
                                                       "x-dead-letter-routing-key": "q"})
        P = spec.Basic.Properties

        async def pub(rk, mid, prio=None, exp=None):
            return await ch.basic_publish(b"{}", routing_key=rk, mandatory=True,
                                          properties=P(message_id=mid, priority=prio, expiration=exp))

        r = await pub("nowhere", "x")
        log.append(type(r).__name__)  # Return (unroutable)
        await pub("q", "a", 5)
        await pub("q", "b", 9)
        await pub("q", "c", 0)
        await pub("q", "d", None)
        await pub("q", "e", 5)
        log.append([m.props.message_id for m in s.queues["q"]])  # b a e c d
        log.append([m.props.priority for m in s.queues["q"]])  # 9 5 5 0 None: 0 survives the codec
        # head-only expiry: long delay in front of a short one
        await pub("q:delayed", "l", 5, "5000")
        await pub("q:delayed", "s", 5, "1000")
        await asyncio.sleep(2)
        log.append(sorted(m.props.message_id for m in s.queues["q:delayed"]))  # both still there
        await asyncio.sleep(3.5)
        log.append([m.props.message_id for m in s.queues["q:delayed"]])  # []
        log.append([m.props.message_id for m in s.queues["q"]])  # l, s appended to the prio 5 group
        log.append(all(m.props.expiration is None for m in s.queues["q"]))
        got = []

        async def cb(msg):
            got.append((msg.header.properties.message_id, msg.delivery_tag, msg.delivery.redelivered))

        await ch.basic_qos(prefetch_count=2)
        ok = await ch.basic_consume("q", cb)
        await asyncio.sleep(0.01)
        log.append(list(got))  # b, a only (prefetch 2)
        await ch.basic_reject(got[0][1], requeue=True)  # b back at the head
        await asyncio.sleep(0.01)
        log.append(got[-1])  # b redelivered
        await ch.basic_nack(got[1][1], requeue=False)  # a -> q:dead
        await asyncio.sleep(0.01)
        log.append([m.props.message_id for m in s.queues["q:dead"]])
        await ch.basic_qos(prefetch_count=0)  # does not affect the running consumer
        await asyncio.sleep(0.01)
        log.append(len(got))
        await ch.basic_cancel(ok.consumer_tag)
        await ch.basic_ack(got[-1][1])
        await asyncio.sleep(0.01)
        log.append(sum(len(c["unacked"]) for c in s.consumers))
        try:
            await ch.basic_ack(999)
            await asyncio.sleep(0.01)
            await ch.basic_qos(prefetch_count=1)
            log.append("no error")
        except ConnectionError:
            log.append("channel closed")
        log.append(sorted(m.props.message_id for m in s.queues["q"]))  # unacked requeued on close

    with loop:
        loop.run_until(prog())
        loop.shutdown()
    loop.close()
    want = [
        "Return",
        ["b", "a", "e", "c", "d"],
        [9, 5, 5, 0, None],
        ["l", "s"],
        [],
        ["b", "a", "e", "l", "s", "c", "d"],
        True,
        [("b", 1, False), ("a", 2, False)],
        ("b", 3, True),
        ["a"],
        4,
        1,
        "channel closed",
        ["b", "c", "d", "l", "s"],  # e was acked, a dead-lettered, b requeued by the close
    ]
    if log != want:
        bad = 1
        print("fake amqp self-test failed:")
        for a, b in zip(log, want):
            print("  ", "OK " if a == b else "BAD", a, "| want", b)
        if len(log) != len(want):
            print("  lengths", len(log), len(want))
    if verbose:
        print(f"fake amqp: {len(want)} rows, {bad} bad")
    return bad
