"""C12 - Expired messages are never executed; live ones are never dropped.

Grid: ttl x (instant at which a worker starts listening - expiry) x message kind x broker.  A
select-phase monitor records the first instant the message shows up in the dead category; the
actor records when it is entered.
"""
import asyncio
from datetime import datetime, timedelta

from repid import MessageDependency, Worker
from repid.converter import BasicConverter
from repid.message import MessageCategory

from ..explore import Acc, digest
from ..harness import SIGTERM, Exec
from ..scenario import fixed_policy
from ..vloop import CLOCK, NS

ID = "C12"
LEVEL = "model_checking"
RULE = ("full product of ttl x offset of the delivery instant from the expiry (-0.5 s, -1 ms, 0, +1 ms, +0.5 s) x "
        "message kind (immediate, delayed due before / after expiry, retried, rescheduled) x broker; distinct = "
        "distinct (cell, executed?, dead-lettered when, readable from the dead category?)")
ASSUMPTIONS = ["Redis / RabbitMQ replaced by in-process models", "expiry rule: now > timestamp + ttl (statement of C19)"]

OFFS = [-0.5, -0.001, 0.0, 0.001, 0.5]
KINDS = ["immediate", "delayed-before", "delayed-after", "retried", "rescheduled"]


def cells(tier):
    out = []
    for kind in ("mem", "redis", "amqp"):
        for ttl in (1.0, 2.0):
            for off in OFFS:
                for mk in KINDS:
                    # the retried kind spends ~0.6 s on its first attempt before the expiry matters
                    out.append(dict(kind=kind, ttl=ttl + (1.0 if mk == "retried" else 0.0), off=off, mk=mk))
        out.append(dict(kind=kind, ttl=None, off=0.0, mk="immediate"))
        # the broker call which sets an expired message aside fails once (connection fault): whatever
        # becomes of the message then, it must not be executed
        # the same grid east and west of UTC (one ttl)
        for tz in (9, -5):
            for off in OFFS:
                for mk in KINDS:
                    out.append(dict(kind=kind, ttl=2.0 + (1.0 if mk == "retried" else 0.0), off=off, mk=mk, tz=tz))
        for off in (0.001, 0.5) if kind != "mem" else ():  # the in-memory broker has no call that can fail
            for mk in KINDS:
                out.append(dict(kind=kind, ttl=1.0 + (1.0 if mk == "retried" else 0.0), off=off, mk=mk, fault=True))
        # a backlog that a worker finds when it starts: every word over {E = expired meanwhile, L = live with a
        # long ttl, N = no ttl}, all in one priority or alternating between two
        import itertools
        for n in range(2, (4 if tier == "quick" else 5) + 1):
            for word in itertools.product("ELN", repeat=n):
                if "E" not in word:
                    continue
                for prios in ("same", "alt"):
                    for tl in (1, 2):
                        out.append(dict(kind=kind, mk="backlog", word="".join(word), prios=prios, tasks_limit=tl))
    return out


def execute(cell):
    from ..vloop import local_zone

    # the local time zone of the process is an input too (code that mixes UTC and local stamps behaves
    # only when they coincide)
    with local_zone(cell.get("tz", 0)):
        return _execute(cell)


def _execute_backlog(cell):
    kind, word = cell["kind"], cell["word"]
    x = Exec(kind)
    w = x.world
    loop = x.loop
    viol = []
    entered = []
    try:
        worker = Worker(_connection=w.conn, graceful_shutdown_time=0.05, tasks_limit=cell["tasks_limit"])

        async def job(m: MessageDependency):
            entered.append(m.key.id_)
            await asyncio.sleep(0.01)

        worker.actor(job, name="job", queue="q", converter=BasicConverter)

        async def setup():
            await w.connect()
            await w.broker.queue_declare("q")
            for i, ch in enumerate(word):
                prio = 5 if cell["prios"] == "same" or i % 2 == 0 else 9
                p = w.params(ttl={"E": 1.0, "L": 600.0, "N": None}[ch])
                await w.broker.enqueue(w.key(f"m{i}", "job", "q", prio), "", p)

        st, v = x.run(setup())
        assert st == "ok", (st, v)
        loop.run_for(1.5)  # the E messages have expired, nobody was listening
        loop.call_later(4.0, lambda: int(SIGTERM) in loop._sig and loop.raise_signal(SIGTERM))
        st, v = x.run(worker.run(), max_iters=2_000_000)
        if st != "ok":
            viol.append(("worker-died", f"Worker.run() ended with {st}: {v!r}"))
        x.settle(0.05)
        obs = w.observe()
        summary = dict(entered=sorted(entered), places={})
        for i, ch in enumerate(word):
            mid = f"m{i}"
            places = [e["place"] for e in obs.get(mid, [])]
            summary["places"][mid] = places
            n = entered.count(mid)
            if ch == "E":
                if n:
                    viol.append(("executed-expired", f"{mid} (position {i} of backlog {word}) had expired 0.5 s before a worker listened but its actor ran"))
                elif places != ["dead"]:
                    viol.append(("neither", f"expired {mid} (position {i} of backlog {word}) was not executed and is in {places}, expected the dead category"))
            else:
                if n != 1:
                    viol.append(("dropped-live", f"live {mid} (position {i} of backlog {word}) was executed {n} times within 4 s of listening; it is in {places}"))
                elif places:
                    viol.append(("dropped-live", f"live {mid} (position {i} of backlog {word}) was executed but is still in {places}"))
        if not viol and "E" in word:
            c = w.broker.get_consumer("q", None, None, MessageCategory.DEAD)

            async def read_dead():
                got = []
                await c.start()
                try:
                    for _ in range(word.count("E")):
                        k, _, _ = await asyncio.wait_for(c.consume(), 1.5)
                        got.append(k.id_)
                except asyncio.TimeoutError:
                    pass
                for id_ in got:
                    i = int(id_[1:])
                    await w.broker.reject(w.key(id_, "job", "q", 5 if cell["prios"] == "same" or i % 2 == 0 else 9))
                await c.finish()
                return got

            st, got = x.run(read_dead())
            want = sorted(f"m{i}" for i, ch in enumerate(word) if ch == "E")
            summary["dead_readable"] = got
            if st != "ok" or sorted(got) != want:
                viol.append(("dead-unreadable", f"expired messages {want} of backlog {word} sit in the dead category but a DEAD consumer returned {got} ({st})"))
        handles = loop.handles
    finally:
        x.close()
    return handles, viol, summary


def _execute(cell):
    if cell["mk"] == "backlog":
        return _execute_backlog(cell)
    kind, ttl, off, mk = cell["kind"], cell["ttl"], cell["off"], cell["mk"]
    x = Exec(kind)
    w = x.world
    loop = x.loop
    viol = []
    entered = []
    first_dead = [None]
    info = {}
    try:
        def monitor(_loop):
            if first_dead[0] is None:
                for e in w.observe().get("m0", []):
                    if e["place"] == "dead":
                        first_dead[0] = CLOCK.ns()
        def make_worker(fail_first):
            worker = Worker(_connection=w.conn, graceful_shutdown_time=0.05)

            async def job(m: MessageDependency):
                entered.append((CLOCK.ns(), m.parameters.timestamp, m.parameters.retries.already_tried))
                if fail_first and m.parameters.retries.already_tried == 0 and mk == "retried":
                    raise ValueError("first attempt fails")
                return None

            worker.actor(job, name="job", queue="q", converter=BasicConverter, retry_policy=fixed_policy(0.2))
            return worker

        async def setup():
            await w.connect()
            await w.broker.queue_declare("q")

        x.run(setup())
        loop.run_for(1.0 - (loop._ns % NS) / NS)  # whole second

        def stop_later(delay):
            loop.call_later(delay, lambda: int(SIGTERM) in loop._sig and loop.raise_signal(SIGTERM))

        key = w.key("m0", "job", "q", 9)
        if mk in ("retried", "rescheduled"):
            # phase 1: a first worker runs the message once (it fails -> retry / succeeds -> reschedule)
            p = w.params(ttl=ttl, retries=1 if mk == "retried" else 0,
                         defer_by=0.3 if mk == "rescheduled" else None,
                         next_in=-0.5 if mk == "rescheduled" else None)
            ns_enq = x.loop._ns
            x.run(w.broker.enqueue(key, "", p))
            ts_enqueued = p.timestamp
            # the first run happens noticeably later than the enqueue, so that a retry which
            # (wrongly) restarted the time-to-live clock is distinguishable
            loop.run_for(0.3)
            w1 = make_worker(True)
            stop_later({"mem": 0.05, "redis": 0.25, "amqp": 0.05}[kind])
            st, v = x.run(w1.run())
            assert st == "ok", (st, v)
            x.settle(0.05)
            ents = w.observe().get("m0", [])
            if len(ents) != 1 or ents[0]["place"] not in ("delayed", "waiting"):
                viol.append(("setup", f"after the first run the message is in {[e['place'] for e in ents]}"))
                return loop.handles, viol, {}
            # the time-to-live counts from the latest *scheduling*: a retry keeps the clock of its
            # scheduling running, a reschedule restarts it at the moment of the reschedule
            if mk == "retried":
                ts = ts_enqueued
            else:
                rq = [r for r in x.log if r[1] == "call" and r[2] == "requeue" and r[7] == 0]
                ts = ts_enqueued + timedelta(microseconds=(rq[-1][0] - 0) // 1000) - timedelta(microseconds=(ns_enq // 1000))
            stored_ts = datetime.fromisoformat(ents[0]["params"]["ts"])
            if stored_ts != ts:
                viol.append(("ttl-clock", f"after a {mk[:-2]}y the message carries timestamp {stored_ts}, its latest scheduling was at {ts}"))
            entered.clear()
        else:
            nxt = None
            if mk == "delayed-before":
                nxt = ttl - 0.7
            elif mk == "delayed-after":
                nxt = ttl + 0.3
            p = w.params(ttl=ttl, next_in=nxt)
            x.run(w.broker.enqueue(key, "", p))
            ts = p.timestamp
        if ttl is None:
            expiry_ns = None
            start_ns = CLOCK.ns() + round(0.3 * NS)
        else:
            expiry_ns = round((ts - CLOCK.now()).total_seconds() * NS) + CLOCK.ns() + round(ttl * NS)
            start_ns = expiry_ns + round(off * NS)
        info["expiry"] = expiry_ns
        loop.select_hooks.append(monitor)
        if mk == "delayed-after":
            # the worker listens all the time; the message only becomes due after it has expired
            start_ns = CLOCK.ns()
        if start_ns > CLOCK.ns():
            loop.run_for((start_ns - CLOCK.ns()) / NS)
        if CLOCK.ns() != start_ns and mk != "delayed-after":
            viol.append(("setup", f"could not start the worker at the intended instant ({(CLOCK.ns() - start_ns) / 1e6} ms off)"))
        if cell.get("fault"):
            w._call_counts.pop("nack", None)
            w.fail_calls = {("nack", 0)}
            if kind == "amqp":
                w.server.fail_once["nack["] = ConnectionError("injected fault: basic.nack")
        w2 = make_worker(False)
        stop_later((ttl or 1.0) + 3.5)
        st, v = x.run(w2.run(), max_iters=2_000_000)
        if st != "ok" and not cell.get("fault"):
            viol.append(("worker-died", f"Worker.run() ended with {st}: {v!r}"))
        x.settle(0.05)
        monitor(loop)
        # ---- oracle
        obs = w.observe().get("m0", [])
        places = [e["place"] for e in obs]
        summary = dict(entered=[round((t - (expiry_ns or 0)) / 1e6, 3) for t, _, _ in entered],
                       dead_at=None if first_dead[0] is None else round((first_dead[0] - (expiry_ns or 0)) / 1e6, 3),
                       places=places)
        resched_ns = [r[0] + CLOCK.offset_ns for r in x.log
                      if r[1] == "call" and r[2] == "requeue" and r[7] == 0 and r[5]["tried"] == 0 and r[5]["defer_by"] is not None]
        for t, mts, tried in entered:
            # judged against the latest scheduling before this delivery (model, not the stored stamp)
            if ttl is not None:
                exp = expiry_ns
                for rn in resched_ns:
                    if rn <= t and rn + round(ttl * NS) > exp and rn > expiry_ns - round(ttl * NS):
                        exp = rn + round(ttl * NS)
                if t > exp:
                    viol.append(("executed-expired", f"actor entered {(t - exp) / 1e6:.3f} ms after the message had expired"))
        if first_dead[0] is not None and not entered:
            if ttl is None or first_dead[0] <= expiry_ns:
                viol.append(("dropped-live", f"message dead-lettered {((expiry_ns or 0) - first_dead[0]) / 1e6:.3f} ms before (or at) its expiry without having been executed"))
        if not entered and first_dead[0] is None and not cell.get("fault"):
            viol.append(("neither", f"message was neither executed nor dead-lettered within {ttl and ttl + 3.5}s of listening; it is in {places}"))
        if ttl is not None and not entered and start_ns <= expiry_ns and mk == "immediate" and off < 0:
            viol.append(("dropped-live", "a worker was listening before the expiry but the message was not executed"))
        if first_dead[0] is not None and not entered and not cell.get("fault"):
            # it must stay retrievable through the dead category
            c = w.broker.get_consumer("q", None, None, MessageCategory.DEAD)

            async def read_dead():
                await c.start()
                try:
                    k, _, _ = await asyncio.wait_for(c.consume(), 1.5)
                    await w.broker.reject(k)
                    return k.id_
                except asyncio.TimeoutError:
                    return None
                finally:
                    await c.finish()

            st, got = x.run(read_dead())
            summary["dead_readable"] = got
            if got != "m0":
                viol.append(("dead-unreadable", f"the expired message sits in the dead category but a DEAD consumer did not return it ({st}, {got})"))
        handles = loop.handles
    finally:
        x.close()
    return handles, viol, summary


def jobs(tier):
    cs = cells(tier)
    n = 6
    return [dict(cells=cs[i:i + n]) for i in range(0, len(cs), n)]


def run_job(job):
    acc = Acc()
    for cell in job["cells"]:
        handles, viol, summary = execute(cell)
        acc.executions += 1
        acc.handles += handles
        acc.choice_points += 1
        acc.outcomes.add(digest([cell, summary]))
        acc.phases[cell["mk"] + ("+fault" if cell.get("fault") else "")] += 1
        for sig, what in viol:
            acc.violations.append(dict(
                signature=f"{cell['kind']} {sig} {cell['mk']}" + (" nack-fails" if cell.get("fault") else "")
                          + (" local-zone" if cell.get("tz") else ""),
                what=what + f" [cell {cell}]",
                job=dict(cells=[cell]),
                detail=summary,
            ))
        if len(acc.samples) < 3:
            acc.samples.append(dict(cell=cell, observed_ms_relative_to_expiry=summary))
    return acc.to_dict()
