"""Reference model of what may become of a delivered message (property text of C02/C03)."""
from __future__ import annotations


def disposition(p: dict, ok: bool) -> tuple:
    """Terminal action the worker must apply after an execution that ended ok / not ok,
    for a message whose parameters view is `p`."""
    if not ok and p["tried"] < p["max"]:
        return ("retry", p["tried"] + 1)
    if p["defer_by"] is not None or p["cron"] is not None:
        return ("reschedule", 0)
    return ("ack",) if ok else ("nack",)


def stages(p0: dict, outcomes: list[bool]) -> list[tuple]:
    """States the message may legitimately rest in, given the executions that completed (in
    order): stage i = first i dispositions applied.  Each stage is
    ("queued", tried) | ("gone",) | ("dead", tried)."""
    out = [("queued", p0["tried"])]
    p = dict(p0)
    for ok in outcomes:
        if out[-1][0] != "queued":
            break
        d = disposition(p, ok)
        if d[0] == "retry":
            p = dict(p, tried=d[1])
            out.append(("queued", d[1]))
        elif d[0] == "reschedule":
            p = dict(p, tried=0)
            out.append(("queued", 0))
        elif d[0] == "ack":
            out.append(("gone",))
        else:
            out.append(("dead", p["tried"]))
    return out


def rest_state(entries: list[dict]) -> tuple | None:
    """Map the observed entries of one id to a stage, or None if it is in no legal rest state
    (several places, still marked in flight, ...)."""
    if not entries:
        return ("gone",)
    if len(entries) != 1:
        return None
    e = entries[0]
    if e["params"] is None:
        return None
    if e["place"] in ("waiting", "delayed"):
        return ("queued", e["params"]["tried"])
    if e["place"] == "dead":
        return ("dead", e["params"]["tried"])
    return None
