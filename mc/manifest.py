"""Generates /verif/MANIFEST.json from the table below (python3 -m mc.manifest)."""
import json
import os

ROOT = os.path.dirname(os.path.dirname(os.path.abspath(__file__)))

# id: (level, technique, text, note, design_ref)
CLAIMED = {}

PENDING_REASON = "check not built yet in this revision of /verif (see DESIGN.md section 4 for the plan)"

ALL = [f"C{i:02d}" for i in range(1, 21)]


def build():
    checks = []
    for pid in ALL:
        if pid not in CLAIMED:
            continue
        level, technique, text, note, ref = CLAIMED[pid]
        checks.append(dict(
            property_id=pid,
            quick_cmd=f"./check {pid} quick",
            thorough_cmd=f"./check {pid} thorough",
            evidence_file=f"/verif/evidence/{pid}.json",
            replay_cmd_template=f"./check {pid} --replay {{path}}",
            engine="mc",
            level_claimed=dict(category=level, text=text, design_ref=ref),
            level_note=note,
            technique=technique,
        ))
    return dict(
        version=1,
        setup_cmd="./check selftest",
        hooks=dict(
            guard="REPID_VERIF",
            enable="no source hooks: the harness wraps instances and rebinds module globals at run time; "
                   "./check exports REPID_VERIF=1 for symmetry only",
            baseline_off_cmd="cd /repo && /venv/bin/python -m pytest -ra -q -p no:cacheprovider --timeout=900 "
                             "--continue-on-collection-errors",
            source_commits=[],
            add_only=True,
        ),
        engines=[dict(
            name="mc",
            path="/verif/mc",
            serves_properties=[c["property_id"] for c in checks],
            kind_free_text="stateless / explicit-state exploration of the real repid code under a deterministic "
                           "virtual-time asyncio loop with in-process models of Redis, RabbitMQ and TCP",
        )],
        checks=checks,
        not_applicable=[dict(property_id=p, reason=PENDING_REASON) for p in ALL if p not in CLAIMED],
        notes="Every check: exit 0 = held on everything explored, 1 = VIOLATION line(s), 2 = harness error. "
              "known_findings.json lists recorded defects; fixed entries suppress nothing.",
    )


if __name__ == "__main__":
    m = build()
    with open(os.path.join(ROOT, "MANIFEST.json"), "w") as f:
        json.dump(m, f, indent=1)
    print("MANIFEST.json:", len(m["checks"]), "checks,", len(m["not_applicable"]), "not claimed")
