"""Deterministic virtual-time event loop and the clock / uuid / random seams.

The loop keeps asyncio's own scheduling (FIFO ready queue, timer heap, one iteration =
I/O events, then due timers, then the handles present at iteration start).  What it
replaces is the selector: time is virtual (integer nanoseconds) and "I/O events" are posted
by the harness (fake servers, signals, injected external events) at the select phase of an
iteration, exactly where `_process_events` would append them on a real loop.
"""
from __future__ import annotations

import asyncio
import gc
import heapq
import itertools
import os
import sys
import threading
import time as _time
import uuid as _uuid
from asyncio import events
from datetime import datetime as _real_datetime
from datetime import timedelta, timezone

NS = 1_000_000_000
EPOCH_S = 1_000_000_000  # 2001-09-09T01:46:40Z
_EPOCH_NAIVE = _real_datetime(1970, 1, 1) + timedelta(seconds=EPOCH_S)
_EPOCH_AWARE = _EPOCH_NAIVE.replace(tzinfo=timezone.utc)


class HarnessError(Exception):
    """Something the harness does not own happened (non-determinism, leak of real time)."""


class Deadlock(Exception):
    pass


class Horizon(Exception):
    pass


# --------------------------------------------------------------------------------------
# clock singleton (re-pointed at each fresh loop)
# --------------------------------------------------------------------------------------
class _Clock:
    def __init__(self) -> None:
        self.loop: VLoop | None = None
        self.offset_ns = 0
        self.uuid_counter = itertools.count(1)
        self.random_value = 0.0  # → HIGH, MEDIUM, LOW order in redis utils
        self.local_offset_us = 0  # naive local time = UTC + this (see local_zone)

    def reset(self, loop: "VLoop | None") -> None:
        self.loop = loop
        self.offset_ns = 0
        self.uuid_counter = itertools.count(1)
        self.random_value = 0.0

    def ns(self) -> int:
        return (self.loop._ns if self.loop is not None else 0) + self.offset_ns

    def us(self) -> int:
        return self.ns() // 1000

    def time(self) -> float:
        return EPOCH_S + self.ns() / NS

    def time_ns(self) -> int:
        return EPOCH_S * NS + self.ns()

    def now(self, tz=None):
        if tz is None:
            return _EPOCH_NAIVE + timedelta(microseconds=self.us() + self.local_offset_us)
        return (_EPOCH_AWARE + timedelta(microseconds=self.us())).astimezone(tz)

    def utcnow(self):
        return _EPOCH_NAIVE + timedelta(microseconds=self.us())

    def uuid4(self):
        return _uuid.UUID(int=(0xABCD << 100) + next(self.uuid_counter))

    def random(self) -> float:
        return self.random_value


CLOCK = _Clock()


class _VDTMeta(type(_real_datetime)):
    def __instancecheck__(cls, inst):  # plain datetimes count as instances
        return isinstance(inst, _real_datetime)


class VDateTime(_real_datetime, metaclass=_VDTMeta):
    """`datetime` stand-in rebound into repid modules: only `now()`/`utcnow()` differ."""

    @classmethod
    def now(cls, tz=None):
        return CLOCK.now(tz)

    @classmethod
    def utcnow(cls):
        return CLOCK.utcnow()

    @classmethod
    def today(cls):
        return CLOCK.now(None)

    @classmethod
    def fromisoformat(cls, s):
        return _real_datetime.fromisoformat(s)

    @classmethod
    def fromtimestamp(cls, t, tz=None):
        return _real_datetime.fromtimestamp(t, tz)


class local_zone:
    """The process's local time zone is part of the environment the harness owns: inside this context
    naive local time is UTC + `hours` - for the virtual clock and (TZ + tzset) for the conversions the
    C library does (`naive.timestamp()`, `datetime.fromtimestamp()`)."""

    def __init__(self, hours: int):
        self.hours = hours

    def __enter__(self):
        self.old = os.environ.get("TZ")
        if self.hours:
            os.environ["TZ"] = f"VRT{-self.hours:+d}"
            _time.tzset()
            CLOCK.local_offset_us = self.hours * 3600 * 10 ** 6
        return self

    def __exit__(self, *exc):
        if self.hours:
            if self.old is None:
                os.environ.pop("TZ", None)
            else:
                os.environ["TZ"] = self.old
            _time.tzset()
            CLOCK.local_offset_us = 0
        return False


_seams_installed = False


def install_seams() -> None:
    """Patch time/uuid/random/datetime as seen by repid.  Idempotent.  Verifies itself."""
    global _seams_installed
    if _seams_installed:
        return
    _time.tzset()
    if _time.timezone != 0:
        raise HarnessError("TZ must be UTC (run through ./check)")
    _time.time = CLOCK.time
    _time.time_ns = CLOCK.time_ns
    _uuid.uuid4 = CLOCK.uuid4

    import importlib
    import pkgutil

    import repid

    for m in pkgutil.walk_packages(repid.__path__, "repid."):
        if m.name.startswith("repid.testing") or ".rabbitmq" in m.name or ".redis" in m.name:
            continue
        importlib.import_module(m.name)
    # optional brokers
    for name in (
        "repid.connections.redis.message_broker",
        "repid.connections.redis.bucket_broker",
        "repid.connections.redis.consumer",
        "repid.connections.redis.utils",
        "repid.connections.rabbitmq.message_broker",
        "repid.connections.rabbitmq.consumer",
        "repid.connections.rabbitmq.utils",
        "repid.testing.modifiers",
    ):
        importlib.import_module(name)

    import dataclasses

    for name, mod in list(sys.modules.items()):
        if not (name == "repid" or name.startswith("repid.")) or mod is None:
            continue
        g = vars(mod)
        if g.get("datetime") is _real_datetime:
            g["datetime"] = VDateTime
        if "uuid4" in g:
            g["uuid4"] = CLOCK.uuid4
        if name == "repid.connections.redis.utils":
            class _R:  # stand-in for the `random` module
                random = staticmethod(CLOCK.random)
            g["random"] = _R
        if name == "repid.testing.modifiers":
            g["time"] = CLOCK.time
        # dataclass default factories captured at import time (datetime.now, uuid lambdas)
        for obj in list(g.values()):
            if isinstance(obj, type) and dataclasses.is_dataclass(obj) and obj.__module__ == name:
                _patch_dataclass_factories(obj)
    _seams_installed = True
    _verify_seams()
    # everything imported so far is permanent: a full collection then only looks at what an
    # execution allocated (keeps gc.collect() at fixed points cheap)
    gc.collect()
    gc.freeze()


def _patch_dataclass_factories(cls) -> None:
    init = cls.__dict__.get("__init__")
    if init is None or init.__closure__ is None:
        return
    for var, cell in zip(init.__code__.co_freevars, init.__closure__):
        if not var.startswith("__dataclass_dflt_"):
            continue
        try:
            val = cell.cell_contents
        except ValueError:
            continue
        if val is _real_datetime.now or (
            getattr(val, "__self__", None) is _real_datetime and getattr(val, "__name__", "") == "now"
        ):
            cell.cell_contents = VDateTime.now
    # dataclasses keep the factory on the Field object too (used by replace/asdict? no) – leave


def _verify_seams() -> None:
    from repid.data._buckets import ArgsBucket, ResultBucket
    from repid.data._parameters import Parameters

    CLOCK.reset(None)
    expect = _EPOCH_NAIVE
    for obj in (
        Parameters(),
        ArgsBucket(data=""),
        ResultBucket(data="", started_when=0, finished_when=0),
    ):
        if obj.timestamp != expect:
            raise HarnessError(f"real time leaks into {type(obj).__name__}.timestamp: {obj.timestamp}")
    for name, mod in sys.modules.items():
        if (name == "repid" or name.startswith("repid.")) and mod is not None:
            if vars(mod).get("datetime") is _real_datetime:
                raise HarnessError(f"{name}.datetime is still the real class")
    if abs(_time.time() - EPOCH_S) > 1:
        raise HarnessError("time.time not virtual")


def check_virtual_stamp(dt, horizon_s: float = 10 * 365 * 86400.0) -> None:
    """A timestamp seen in any message must be near the virtual epoch, never near real now."""
    if dt is None:
        return
    naive = dt.replace(tzinfo=None) if dt.tzinfo is not None else dt
    if abs((naive - _EPOCH_NAIVE).total_seconds()) > horizon_s and naive.year > 2015:
        raise HarnessError(f"timestamp {dt} is not on the virtual clock")


# --------------------------------------------------------------------------------------
# the loop
# --------------------------------------------------------------------------------------
class VTimer(events.TimerHandle):
    __slots__ = ("_seq", "_ns")

    def _k(self):
        return (self._ns, self._seq)

    def __lt__(self, o):
        return self._k() < o._k()

    def __le__(self, o):
        return self._k() <= o._k()

    def __gt__(self, o):
        return self._k() > o._k()

    def __ge__(self, o):
        return self._k() >= o._k()

    def __eq__(self, o):
        return self is o

    __hash__ = events.TimerHandle.__hash__


class VLoop(asyncio.BaseEventLoop):
    def __init__(self) -> None:
        super().__init__()
        self._ns = 0
        self._tseq = itertools.count()
        self.iterations = 0
        self.handles = 0
        self._io: list[events.Handle] = []
        self.select_hooks: list = []  # each: fn(loop) called at the select phase
        self._sig: dict[int, events.Handle] = {}
        self.exc_log: list[dict] = []
        self.set_exception_handler(lambda loop, ctx: self.exc_log.append(ctx))
        self.vnet = None  # set by env.vnet when needed
        self._old_agen_hooks = None

    # -- time ------------------------------------------------------------------------
    def time(self) -> float:
        return self._ns / NS

    def call_later(self, delay, callback, *args, context=None):
        if delay is None:
            raise TypeError("delay must not be None")
        return self._at_ns(self._ns + max(0, round(delay * NS)), callback, args, context)

    def call_at(self, when, callback, *args, context=None):
        if when is None:
            raise TypeError("when cannot be None")
        return self._at_ns(round(when * NS), callback, args, context)

    def _at_ns(self, ns, callback, args, context):
        self._check_closed()
        t = VTimer(ns / NS, callback, args, self, context)
        t._ns = ns
        t._seq = next(self._tseq)
        heapq.heappush(self._scheduled, t)
        t._scheduled = True
        return t

    def _timer_handle_cancelled(self, handle):
        if handle._scheduled:
            self._timer_cancelled_count += 1

    # -- selector stand-ins --------------------------------------------------------------
    def _process_events(self, event_list):
        pass

    def _write_to_self(self):
        pass

    def post_io(self, callback, *args) -> None:
        """An I/O completion: becomes a ready handle at the next select phase."""
        self._io.append(events.Handle(callback, args, self, None))

    # -- signals -------------------------------------------------------------------------
    def add_signal_handler(self, sig, callback, *args):
        self._sig[int(sig)] = events.Handle(callback, args, self, None)

    def remove_signal_handler(self, sig):
        return self._sig.pop(int(sig), None) is not None

    def raise_signal(self, sig) -> None:
        """The process receives `sig` now: the self-pipe reader becomes an I/O event; when it
        runs it queues the registered handler (as `_handle_signal` does)."""
        self.post_io(self._read_from_self, int(sig))

    def _read_from_self(self, sig) -> None:
        h = self._sig.get(sig)
        if h is not None and not h._cancelled:
            self._ready.append(events.Handle(h._callback, h._args, self, None))

    # -- executor: inline ----------------------------------------------------------------
    def run_in_executor(self, executor, func, *args):
        fut = self.create_future()

        def _run():
            if fut.cancelled():
                return
            try:
                r = func(*args)
            except BaseException as e:  # noqa: BLE001
                fut.set_exception(e)
            else:
                fut.set_result(r)

        self.post_io(_run)
        return fut

    # -- network ---------------------------------------------------------------------------
    async def create_server(self, protocol_factory, host=None, port=None, **kw):
        if self.vnet is None:
            raise HarnessError("create_server without a virtual network")
        return await self.vnet.create_server(self, protocol_factory, host, port, **kw)

    # -- running ---------------------------------------------------------------------------
    def step(self) -> None:
        self.iterations += 1
        sched = self._scheduled
        while sched and sched[0]._cancelled:
            h = heapq.heappop(sched)
            h._scheduled = False
        for hook in self.select_hooks:
            hook(self)
        if not self._ready and not self._io:
            while sched and sched[0]._cancelled:
                h = heapq.heappop(sched)
                h._scheduled = False
            if not sched:
                raise Deadlock()
            if sched[0]._ns > self._ns:
                self._ns = sched[0]._ns
        if self._io:
            self._ready.extend(self._io)
            self._io.clear()
        while sched and sched[0]._ns <= self._ns:
            h = heapq.heappop(sched)
            h._scheduled = False
            if not h._cancelled:
                self._ready.append(h)
        ready = self._ready
        for _ in range(len(ready)):
            h = ready.popleft()
            if not h._cancelled:
                self.handles += 1
                h._run()
        h = None

    def next_timer_ns(self):
        sched = self._scheduled
        while sched and sched[0]._cancelled:
            h = heapq.heappop(sched)
            h._scheduled = False
        return sched[0]._ns if sched else None

    def idle(self) -> bool:
        return not self._ready and not self._io and self.next_timer_ns() is None

    def __enter__(self):
        if events._get_running_loop() is not None:
            raise HarnessError("a loop is already running")
        events._set_running_loop(self)
        self._thread_id = threading.get_ident()
        self._old_agen_hooks = sys.get_asyncgen_hooks()
        sys.set_asyncgen_hooks(
            firstiter=self._asyncgen_firstiter_hook, finalizer=self._asyncgen_finalizer_hook
        )
        CLOCK.reset(self)
        return self

    def __exit__(self, *exc):
        events._set_running_loop(None)
        self._thread_id = None
        sys.set_asyncgen_hooks(*self._old_agen_hooks)
        CLOCK.reset(None)
        return False

    def run_until(self, fut_or_coro, *, max_iters: int = 2_000_000, max_vt: float | None = None):
        """Drive the loop until the future is done.  Must be inside `with loop:`."""
        fut = asyncio.ensure_future(fut_or_coro, loop=self)
        limit_ns = None if max_vt is None else round(max_vt * NS)
        start = self.iterations
        while not fut.done():
            if self.iterations - start >= max_iters:
                raise Horizon("iterations")
            if limit_ns is not None and self._ns > limit_ns:
                raise Horizon("virtual time")
            self.step()
        return fut

    def run_for(self, seconds: float, *, max_iters: int = 2_000_000) -> None:
        """Advance until virtual time reaches now+seconds (or nothing is left to do)."""
        end = self._ns + round(seconds * NS)
        n = 0
        while True:
            nt = self.next_timer_ns()
            if not self._ready and not self._io and (nt is None or nt > end):
                # let select hooks have a say (pending server work) before going idle
                before = len(self._io) + len(self._ready)
                for hook in self.select_hooks:
                    hook(self)
                if len(self._io) + len(self._ready) == before:
                    break
                self._step_nohooks()
                continue
            n += 1
            if n > max_iters:
                raise Horizon("iterations")
            self.step()
        if self._ns < end:
            self._ns = end

    def _step_nohooks(self):
        hooks, self.select_hooks = self.select_hooks, []
        try:
            self.step()
        finally:
            self.select_hooks = hooks

    def settle(self, *, max_vt: float, max_iters: int = 500_000) -> bool:
        """Run until nothing is ready and no timer is due within `max_vt` seconds from now.
        Returns True if the loop went fully idle."""
        end = self._ns + round(max_vt * NS)
        n = 0
        while True:
            for hook in self.select_hooks:
                hook(self)
            nt = self.next_timer_ns()
            if not self._ready and not self._io:
                if nt is None:
                    return True
                if nt > end:
                    return False
            n += 1
            if n > max_iters:
                raise Horizon("settle iterations")
            self._step_nohooks()

    def shutdown(self) -> None:
        """Cancel whatever is left and drain (like asyncio.run does), then close."""
        try:
            for _ in range(50):
                tasks = [t for t in asyncio.all_tasks(self) if not t.done()]
                if not tasks:
                    break
                for t in tasks:
                    t.cancel()
                for _ in range(200):
                    if not self._ready and not self._io:
                        break
                    self._step_nohooks()
            self.select_hooks = []
            self._ready.clear()
            self._scheduled.clear()
            self._io.clear()
        finally:
            pass

    def close(self) -> None:
        if self.is_running():
            raise RuntimeError("Cannot close a running event loop")
        if self.is_closed():
            return
        self._closed = True
        self._ready.clear()
        self._scheduled.clear()


def collect() -> None:
    gc.collect()
