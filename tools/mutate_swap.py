#!/usr/bin/env python3
"""Second operator set for tools/mutate.py: swap two adjacent simple statements of a function body
(ordering slips: publish before ack, store before requeue, mark before take ...).
  tools/mutate_swap.py gen      -> appends to $MUT/mutants.json (ids continue), op = "swap"
Then run `tools/mutate.py tests` / `checks` / `report` as usual."""
import ast
import os
import sys

sys.path.insert(0, os.path.dirname(os.path.abspath(__file__)))
import mutate  # noqa: E402

FILES = [f for f in mutate.FILES if f.split("/")[-1] in (
    "_runner.py", "_processor.py", "worker.py", "message.py", "message_broker.py", "consumer.py", "_parameters.py",
    "message_dependency.py", "health_check_server.py", "bucket_broker.py", "wrapper.py", "depends.py", "router.py")]
SIMPLE = (ast.Expr, ast.Assign, ast.AugAssign, ast.AnnAssign)


def uses(node):
    loads, stores = set(), set()
    for n in ast.walk(node):
        if isinstance(n, ast.Name):
            (stores if isinstance(n.ctx, ast.Store) else loads).add(n.id)
    return loads, stores


def swaps_of(rel):
    path = os.path.join(mutate.REPO, "repid", rel)
    src = open(path).read()
    lines = src.split("\n")
    tree = ast.parse(src)
    out = []
    for fn in ast.walk(tree):
        if not isinstance(fn, (ast.FunctionDef, ast.AsyncFunctionDef)):
            continue
        for node in ast.walk(fn):
            body_lists = [getattr(node, f) for f in ("body", "orelse", "finalbody") if isinstance(getattr(node, f, None), list)]
            for body in body_lists:
                for a, b in zip(body, body[1:]):
                    if not (isinstance(a, SIMPLE) and isinstance(b, SIMPLE)):
                        continue
                    seg_a = "\n".join(lines[a.lineno - 1: a.end_lineno])
                    seg_b = "\n".join(lines[b.lineno - 1: b.end_lineno])
                    if "logger." in seg_a or "logger." in seg_b or "pragma: no cover" in seg_a + seg_b:
                        continue
                    if isinstance(a, ast.Expr) and isinstance(a.value, ast.Constant):
                        continue  # docstring
                    la, sa = uses(a)
                    lb, sb = uses(b)
                    if sa & lb or sb & la:
                        continue  # the second statement needs a name the first one binds (or vice versa): would not run
                    if b.lineno != a.end_lineno + 1 and any(l.strip() and not l.strip().startswith("#")
                                                            for l in lines[a.end_lineno: b.lineno - 1]):
                        continue
                    between = lines[a.end_lineno: b.lineno - 1]
                    old = "\n".join(lines[a.lineno - 1: b.end_lineno])
                    new = "\n".join([seg_b] + between + [seg_a])
                    out.append(dict(file=rel, line=a.lineno, col=0, end_line=b.end_lineno, end_col=len(lines[b.end_lineno - 1].encode()),
                                    op="swap", old=old, new=new))
    # dedupe (nested walks visit bodies twice)
    seen, res = set(), []
    for m in out:
        k = (m["file"], m["line"], m["end_line"])
        if k not in seen:
            seen.add(k)
            res.append(m)
    return res


if __name__ == "__main__":
    ms = mutate.load()
    ms = [m for m in ms if m["op"] != "swap"]
    nid = max(m["id"] for m in ms) + 1
    head = mutate.sh(f"git -C {mutate.REPO} rev-parse --short HEAD").stdout.strip()
    n = 0
    for rel in FILES:
        for m in swaps_of(rel):
            m["id"] = nid
            m["head"] = head
            nid += 1
            n += 1
            ms.append(m)
    mutate.save(ms)
    print(n, "swap mutants")
