"""C14 - A message is held by at most one consumer at a time.

Two consumers (two clients of one server) and two workers on one queue; the start instant of
the second one and the stop instant of the first one are swept over every loop iteration, and on
the Redis / RabbitMQ models the order in which the server handles concurrently pending requests
is explored by deviation-bounded search.  (In-memory consumers are additionally covered by the
two-consumer alphabet of C01.)
"""
import asyncio

from repid import MessageDependency, Worker
from repid.converter import BasicConverter
from repid.message import MessageCategory

from ..explore import Acc, alternatives, digest
from ..harness import SIGTERM, Exec
from ..vloop import NS

ID = "C14"
LEVEL = "model_checking"
RULE = ("consumer level: 1-3 messages x second consumer started at every loop iteration of the baseline x server "
        "request-order deviations up to the bound; worker level: two workers x start of the second / stop of the first "
        "swept over every iteration; distinct = distinct (scenario, who received what)")
ASSUMPTIONS = [
    "Redis / RabbitMQ replaced by in-process models; requests of different clients may be handled in any order, "
    "requests of one RabbitMQ connection in FIFO order",
    "two workers share one event loop (as two Worker objects in one process would)",
]

HORIZON = {"mem": 0.08, "redis": 0.7, "amqp": 0.15}


def consumer_scenario(kind, n, start2_at, deviations, enq_late):
    """Two consumers; returns (points, deliveries{id: [consumer,...]}, handles, iters)."""
    x = Exec(kind, deviations=deviations, clients=2)
    w = x.world
    loop = x.loop
    got = {}
    try:
        if w.server is not None:
            w.server.reorder = True

        async def setup():
            await w.connect()
            await w.broker.queue_declare("q")
            if kind == "redis":
                w.server.stall_choice = True  # from here on every request may be overtaken
            if not enq_late:
                for i in range(n):
                    await w.broker.enqueue(w.key(f"m{i}", "job", "q", 9), "", w.params())

        x.run(setup())
        cons = [w.brokers[i].get_consumer("q", None, None, MessageCategory.NORMAL) for i in range(2)]

        async def listen(ci):
            await cons[ci].start()
            while True:
                key, _, _ = await cons[ci].consume()
                got.setdefault(key.id_, []).append(ci)

        x.mark()
        t0 = asyncio.ensure_future(listen(0), loop=loop)
        tasks = [t0]

        def start2():
            tasks.append(asyncio.ensure_future(listen(1), loop=loop))

        if start2_at is None:
            start2()
        else:
            x.at_iteration(start2_at, start2)
        if enq_late:
            async def late():
                await asyncio.sleep(HORIZON[kind] / 3)
                for i in range(n):
                    await w.brokers[0].enqueue(w.key(f"m{i}", "job", "q", 9), "", w.params())
            tasks.append(asyncio.ensure_future(late(), loop=loop))
        loop.run_for(HORIZON[kind])
        iters = x.rel_iter
        for t in tasks:
            t.cancel()
        x.settle(0.01)
        obs = w.observe()
        res = dict(points=list(x.chooser.points), got=got, handles=loop.handles, iters=iters,
                   places={k: sorted(e["place"] for e in v) for k, v in obs.items() if not k.startswith("__")})
    finally:
        x.close()
    return res


def worker_scenario(kind, n, dur, start2_at, stop1_at, deviations, tl=1000):
    x = Exec(kind, deviations=deviations, clients=2)
    w = x.world
    loop = x.loop
    runs = {}
    try:
        if w.server is not None:
            w.server.reorder = True

        def make(ci):
            worker = Worker(_connection=w.conns[ci], graceful_shutdown_time=0.0, handle_signals=[], tasks_limit=tl)

            async def job(m: MessageDependency):
                rec = [ci, "start", loop._ns, None]
                runs.setdefault(m.key.id_, []).append(rec)
                try:
                    await asyncio.sleep(dur)
                except asyncio.CancelledError:
                    rec[1] = "cancelled"
                    rec[3] = loop._ns
                    raise
                rec[1] = "ok"
                rec[3] = loop._ns

            worker.actor(job, name="job", queue="q", converter=BasicConverter)
            return worker

        async def setup():
            await w.connect()
            await w.broker.queue_declare("q")
            for i in range(n):
                await w.broker.enqueue(w.key(f"m{i}", "job", "q", 9), "", w.params(timeout=50.0))

        x.run(setup())
        if kind == "redis":
            w.server.stall_choice = True
        workers = [make(0), make(1)]
        runners = {}
        x.mark()

        async def run(ci):
            # Worker.run() without signal handling: keep a handle on the runner to stop it
            wk = workers[ci]
            orig = wk._register_signals

            def reg(lp, runner):
                runners[ci] = runner
            wk._register_signals = reg
            return await wk.run()

        t0 = asyncio.ensure_future(run(0), loop=loop)
        tasks = [t0]

        def start2():
            tasks.append(asyncio.ensure_future(run(1), loop=loop))

        def stop(ci):
            r = runners.get(ci)
            if r is not None:
                r.sync_stop_wait_and_cancel(0.0)

        if start2_at is None:
            start2()
        else:
            x.at_iteration(start2_at, start2)
        if stop1_at is not None:
            x.at_iteration(stop1_at, lambda: stop(0))
        loop.run_for(HORIZON[kind] + dur * n)
        iters = x.rel_iter
        stop(0)
        stop(1)
        loop.run_for(0.5)
        x.settle(0.2)
        obs = w.observe()
        res = dict(points=list(x.chooser.points), runs=runs, handles=loop.handles, iters=iters,
                   places={k: sorted(e["place"] for e in v) for k, v in obs.items() if not k.startswith("__")},
                   done=[t.done() for t in tasks])
    finally:
        x.close()
    return res


# --------------------------------------------------------------------------------------
# words over the consumer API as the runner uses it: consume / pause / unpause / finish on a
# consumer with a one-message window (A) next to an unlimited one (B), and the application's
# reject / ack of what it holds
# --------------------------------------------------------------------------------------
PW_LETTERS = ["cA", "cB", "pA", "uA", "rj", "ak", "fA"]
PW_BUDGET = {"mem": 0.25, "redis": 0.5, "amqp": 0.35}


def pause_words(maxlen):
    out = []

    def rec(word, alive, paused, held):
        if word:
            out.append(list(word))
        if len(word) == maxlen:
            return
        for l in PW_LETTERS:
            if l in ("cA", "pA", "uA", "fA") and not alive:
                continue
            if l == "pA" and paused or l == "uA" and not paused:
                continue
            if l in ("rj", "ak") and held == 0:
                continue
            rec(word + [l], alive and l != "fA", (paused or l == "pA") and l != "uA",
                held + (1 if l in ("cA", "cB") else 0) - (1 if l in ("rj", "ak") else 0))

    rec([], True, False, 0)
    return out


def pause_word_scenario(kind, word):
    x = Exec(kind)
    w = x.world
    loop = x.loop
    viol = []
    trace = []
    try:
        cons = {}

        async def setup():
            await w.connect()
            await w.broker.queue_declare("q")
            for i in range(2):
                await w.broker.enqueue(w.key(f"m{i}", "job", "q", 5), "", w.params(timeout=500.0))
            cons["A"] = w.broker.get_consumer("q", None, 1, MessageCategory.NORMAL)
            cons["B"] = w.broker.get_consumer("q", None, None, MessageCategory.NORMAL)
            await cons["A"].start()
            await asyncio.sleep(0.6)  # A's window and hand fill up first (Redis polls one priority per 100 ms)
            await cons["B"].start()

        x.run(setup())
        loop.run_for(0.3)
        held = {}      # id -> (consumer, key): consumed by the application, not settled yet
        order = []     # ids in the order they were consumed
        last = {"A": None, "B": None}
        acked = set()
        loose = set()  # delivered through A, unsettled when A finished: held or waiting, either is fine

        def run_op(coro, budget):
            fut = asyncio.ensure_future(coro, loop=loop)
            limit = loop._ns + round(budget * NS)
            while not fut.done():
                nt = loop.next_timer_ns()
                if not loop._ready and not loop._io and not (w.server is not None and w.server.busy()) \
                        and (nt is None or nt > limit):
                    break
                loop.step()
            if not fut.done():
                fut.cancel()
                for _ in range(300):
                    if fut.done():
                        break
                    loop.step()
                return "timeout", None
            if fut.cancelled():
                return "cancelled", None
            if fut.exception() is not None:
                return "exc", fut.exception()
            return "ok", fut.result()

        # every word ends with a probe: whatever can still be delivered to B must not be something the
        # application holds
        for letter in list(word) + ["cB"]:
            if letter in ("cA", "cB"):
                c = letter[1]
                st, res = run_op(cons[c].consume(), PW_BUDGET[kind])
                if st == "exc":
                    viol.append(("consume-failed", f"{letter} raised {res!r} (trace {trace})"))
                    break
                if st != "ok":
                    trace.append(f"{letter}:-")
                    continue
                key = res[0]
                trace.append(f"{letter}:{key.id_}")
                if key.id_ in held:
                    viol.append(("held-by-two", f"{letter} returned {key.id_}, which consumer {held[key.id_][0]} had delivered "
                                                f"and the application still holds (trace {trace})"))
                    break
                if key.id_ in acked:
                    viol.append(("delivered-after-ack", f"{letter} returned {key.id_} after it had been acknowledged (trace {trace})"))
                    break
                held[key.id_] = (c, key)
                loose.discard(key.id_)
                order.append(key.id_)
                last[c] = key.id_
            elif letter in ("pA", "uA"):
                st, res = run_op(cons["A"].pause() if letter == "pA" else cons["A"].unpause(), 1.0)
                trace.append(f"{letter}:{st}")
                if st != "ok":
                    viol.append(("pause-failed", f"{letter} ended with {st} {res!r}"))
                    break
            elif letter in ("rj", "ak"):
                ids = [i for i in order if i in held]
                if not ids:
                    trace.append(f"{letter}:nothing-held")
                    continue
                mid = ids[-1] if letter == "rj" else ids[0]
                c, key = held.pop(mid)
                st, res = run_op(w.broker.reject(key) if letter == "rj" else w.broker.ack(key), 1.0)
                trace.append(f"{letter}:{mid}:{st}")
                if letter == "ak":
                    acked.add(mid)
                if st != "ok":
                    viol.append(("settle-failed", f"{letter} of {mid} ended with {st} {res!r}"))
                    break
            elif letter == "fA":
                st, res = run_op(cons["A"].finish(), 2.0)
                trace.append(f"fA:{st}")
                if st != "ok":
                    viol.append(("finish-failed", f"finish ended with {st} {res!r}"))
                    break
                # "returned by its holder's shutdown": what was delivered through A and not settled yet may
                # be given back (the in-memory broker returns all of it, Redis / RabbitMQ the latest one);
                # the application forgets those handles
                for mid in [i for i, (c_, _) in held.items() if c_ == "A"]:
                    held.pop(mid)
                    loose.add(mid)
        loop.run_for(0.3)
        if not viol:
            obs = w.observe()
            for i in range(2):
                mid = f"m{i}"
                places = sorted(e["place"] for e in obs.get(mid, []))
                if mid in acked:
                    if places:
                        viol.append(("acked-still-present", f"{mid} was acknowledged but is in {places} (trace {trace})"))
                elif len(places) != 1:
                    viol.append(("duplicated" if places else "lost", f"{mid} is in {places} (application holds {sorted(held)}; trace {trace})"))
                elif mid in loose and places[0] not in ("held", "waiting"):
                    viol.append(("wrong-place", f"{mid} (unsettled when its consumer finished) is in {places} (trace {trace})"))
                elif mid in held and places != ["held"]:
                    viol.append(("held-and-available", f"the application holds {mid} (delivered by {held[mid][0]}) but it is in {places} (trace {trace})"))
            if obs.get("__orphans__"):
                viol.append(("ghost", f"{obs['__orphans__']} (trace {trace})"))
        handles = loop.handles
    finally:
        x.close()
    return dict(handles=handles, points=[], trace=trace), viol


OVERLAP_A = ["ack", "nack", "reject", "requeue"]
OVERLAP_B = ["finish0", "finish1", "consume1"]


def overlap_scenario(kind, op_a, op_b, d, deviations):
    """c0 holds m0 (handed to the application).  Task A disposes m0; task B (the holder's own
    finish, another consumer's finish, or another consumer's consume) starts d loop iterations
    after A (d < 0: before)."""
    x = Exec(kind, deviations=deviations, clients=2)
    w = x.world
    loop = x.loop
    out = dict(got1=None)
    try:
        cons = []

        async def setup():
            await w.connect()
            await w.broker.queue_declare("q")
            await w.broker.enqueue(w.key("m0", "job", "q", 9), "old", w.params(retries=3))
            c0 = w.brokers[0].get_consumer("q", None, None, MessageCategory.NORMAL)
            c1 = w.brokers[1].get_consumer("q", None, None, MessageCategory.NORMAL)
            cons.extend([c0, c1])
            await c0.start()
            key, _, _ = await c0.consume()
            await c1.start()
            return key

        st, key = x.run(setup())
        assert st == "ok", (st, key)
        loop.run_for(0.35)  # let c1's background fetch go quiet
        b = w.brokers[0]

        async def task_a():
            if op_a == "requeue":
                await b.requeue(key, "new", w.params(retries=3, tried=1))
            else:
                await getattr(b, op_a)(key)

        async def task_b():
            if op_b == "finish0":
                await cons[0].finish()
            elif op_b == "finish1":
                await cons[1].finish()
            else:
                k, p, _ = await cons[1].consume()
                out["got1"] = (k.id_, p)

        x.mark()
        tasks = []
        first, second = (task_a, task_b) if d >= 0 else (task_b, task_a)
        tasks.append(asyncio.ensure_future(first(), loop=loop))

        async def later():
            for _ in range(abs(d)):
                await asyncio.sleep(0)  # one loop iteration each
            await second()

        tasks.append(asyncio.ensure_future(later(), loop=loop))
        loop.run_for(0.6)
        for t in tasks:
            if not t.done():
                t.cancel()
        x.settle(0.05)
        errs = [repr(t.exception()) for t in tasks if t.done() and not t.cancelled() and t.exception() is not None]
        obs = w.observe()
        out.update(points=list(x.chooser.points), handles=loop.handles, iters=x.rel_iter, errors=errs,
                   entries=[(e["place"], e["payload"], e["params"]["tried"] if e["params"] else None) for e in obs.get("m0", [])],
                   orphans=obs.get("__orphans__", []),
                   local1=[i[0].id_ for i in list(getattr(cons[1], "queue", None)._queue)] if getattr(cons[1], "queue", None) is not None else [])
    finally:
        x.close()
    return out


MAINT_TIMEOUTS = [3.0, 600.0, 86400.0, 2 * 86400.0 + 300.0]


def maintenance_scenario(timeout, held_for):
    """Redis: a live consumer holds a message; another process connects (which runs maintenance) and
    polls.  The message may only change hands once it has been held longer than its execution
    timeout."""
    from ..vloop import CLOCK
    x = Exec("redis", clients=2)
    w = x.world
    loop = x.loop
    out = {}
    try:
        async def setup():
            await w.brokers[0].connect()
            await w.broker.queue_declare("q")
            await w.broker.enqueue(w.key("m0", "job", "q", 9), "p", w.params(timeout=timeout))
            c0 = w.brokers[0].get_consumer("q", None, None, MessageCategory.NORMAL)
            await c0.start()
            key, _, _ = await c0.consume()
            return c0

        st, c0 = x.run(setup())
        assert st == "ok", (st, c0)
        loop.run_for(min(held_for, 1.0))
        if held_for > 1.0:
            CLOCK.offset_ns += round((held_for - 1.0) * NS)  # the holder keeps working for a long time
        got = []

        async def other():
            await w.brokers[1].connect()  # runs maintenance
            c1 = w.brokers[1].get_consumer("q", None, None, MessageCategory.NORMAL)
            await c1.start()
            try:
                key, _, _ = await asyncio.wait_for(c1.consume(), 0.7)
                got.append(key.id_)
            except asyncio.TimeoutError:
                pass
            await c1.finish()

        st, v = x.run(other(), max_iters=300_000)
        x.settle(0.05)
        obs = w.observe()
        out = dict(got=got, places=sorted(e["place"] for e in obs.get("m0", [])), status=st, handles=loop.handles,
                   points=list(x.chooser.points))
    finally:
        x.close()
    return out


def judge_maintenance(scn, r):
    viol = []
    t, h = scn["timeout"], scn["held_for"]
    if h < t - 1.0:
        if r["got"] or r["places"] != ["held"]:
            viol.append(("released-while-held", f"a message with execution timeout {t}s had been held for {h}s by a live consumer when "
                                                f"another process connected: it was handed to the newcomer {r['got']} / is now in {r['places']}"))
    elif h > t + 1.0:
        if r["got"] != ["m0"] and r["places"] not in (["waiting"],):
            viol.append(("not-released", f"a message held for {h}s with execution timeout {t}s was not made available by maintenance "
                                         f"(newcomer received {r['got']}, places {r['places']})"))
    return viol


def judge_overlap(scn, r):
    viol = []
    ents = r["entries"]
    places = sorted(e[0] for e in ents)
    if r["orphans"]:
        viol.append(("ghost", f"after {scn['op_a']} || {scn['op_b']}: {r['orphans']}"))
    if len(ents) > 1:
        viol.append(("duplicated", f"after {scn['op_a']} || {scn['op_b']} (offset {scn['d']}) the message is in {places}"))
        return viol
    a, b = scn["op_a"], scn["op_b"]
    # outcomes of the two sequential orders (the second one acting on what the first left)
    legal = set()
    if a == "ack":
        legal.add(())
    elif a == "nack":
        legal.add((("dead", "old", 0),))
    elif a == "reject":
        legal.update({(("waiting", "old", 0),), (("held", "old", 0),)})
    else:
        legal.update({(("waiting", "new", 1),), (("held", "new", 1),)})
    if b == "finish0":
        # the holder's shutdown may return the message first; the disposition then finds nothing
        legal.update({(("waiting", "old", 0),), (("held", "old", 0),)})
    if tuple(ents) not in legal:
        viol.append(("wrong-outcome", f"after {a} || {b} (offset {scn['d']}) the message is {ents}, no order of the two explains it (legal {sorted(legal)})"))
    if r["errors"]:
        viol.append(("raised", f"{a} || {b} raised {r['errors']}"))
    return viol


def judge_consumers(scn, r):
    viol = []
    for mid, cs in r["got"].items():
        if len(cs) > 1:
            viol.append(("delivered-twice", f"{mid} was handed to consumers {cs} without having been returned in between"))
    for i in range(scn["n"]):
        mid = f"m{i}"
        if mid not in r["got"] and r["places"].get(mid) != ["waiting"] and r["places"].get(mid) != ["held"]:
            viol.append(("lost", f"{mid} was delivered to nobody and is in {r['places'].get(mid)}"))
    return viol


def judge_workers(scn, r):
    """Without a shutdown in the scenario: exactly one execution per job.  With worker 1 being
    force-stopped, a second execution is legitimate (the message was returned by its holder's
    shutdown), but the two holders must never overlap and nothing may be duplicated."""
    viol = []
    stopped = scn.get("stop1_at") is not None
    for i in range(scn["n"]):
        mid = f"m{i}"
        rs = r["runs"].get(mid, [])
        oks = [x for x in rs if x[1] == "ok"]
        places = r["places"].get(mid, [])
        for a in rs:
            for b in rs:
                if a is not b and a[0] != b[0] and a[2] < (b[3] if b[3] is not None else 1 << 62) and \
                        b[2] < (a[3] if a[3] is not None else 1 << 62) and (a[2], a[0]) < (b[2], b[0]):
                    if a[3] != a[2] or b[3] != b[2] or a[2] == b[2]:
                        viol.append(("held-by-two", f"the job {mid} was being executed by both workers at the same time: {rs}"))
        if not stopped:
            if len(oks) > 1:
                viol.append(("executed-twice", f"the job {mid} ran to completion {len(oks)} times: {rs}"))
            if oks and places:
                viol.append(("completed-and-present", f"{mid} completed but is still in {places}"))
        if len(places) > 1:
            viol.append(("duplicated", f"{mid} is in {places}"))
        if not oks and places != ["waiting"]:
            viol.append(("lost", f"{mid} never completed and is in {places} (runs {rs})"))
        if places and places != ["waiting"] and len(places) == 1:
            viol.append(("wrong-place", f"{mid} rests in {places} (runs {rs})"))
    # dedupe
    seen = set()
    out = []
    for v in viol:
        if v[0] not in seen:
            seen.add(v[0])
            out.append(v)
    return out


def run_one(scn, deviations):
    if scn["level"] == "maintenance":
        r = maintenance_scenario(scn["timeout"], scn["held_for"])
        return r, judge_maintenance(scn, r), dict(got=r["got"], places=r["places"])
    if scn["level"] == "pause-word":
        r, viol = pause_word_scenario(scn["kind"], scn["word"])
        return r, viol, dict(trace=r["trace"])
    if scn["level"] == "overlap":
        r = overlap_scenario(scn["kind"], scn["op_a"], scn["op_b"], scn["d"], deviations)
        return r, judge_overlap(scn, r), dict(entries=r["entries"], got1=r["got1"], local1=r["local1"])
    if scn["level"] == "consumer":
        r = consumer_scenario(scn["kind"], scn["n"], scn.get("start2_at"), deviations, scn.get("enq_late", False))
        return r, judge_consumers(scn, r), dict(got=r["got"], places=r["places"])
    r = worker_scenario(scn["kind"], scn["n"], scn["dur"], scn.get("start2_at"), scn.get("stop1_at"), deviations,
                        scn.get("tl", 1000))
    return r, judge_workers(scn, r), dict(runs={k: [x[:2] for x in v] for k, v in r["runs"].items()}, places=r["places"])


def base_scenarios(tier):
    out = []
    for kind in ("mem", "redis", "amqp"):
        for n in (1, 2, 3):
            for late in (False, True):
                out.append(dict(level="consumer", kind=kind, n=n, enq_late=late))
        for n in (1, 2):
            for dur in (0.0, 0.005):
                out.append(dict(level="worker", kind=kind, n=n, dur=dur))
        # one slot per worker: a message waits inside the worker (consumer paused) while another one runs
        for n in (2, 3):
            out.append(dict(level="worker", kind=kind, n=n, dur=0.005, tl=1))
        # ... and long enough for the polling instants of the two workers to coincide while it waits
        out.append(dict(level="worker", kind=kind, n=2, dur=0.25, tl=1))
    return out


def jobs(tier):
    bound = 2 if tier == "quick" else 3
    out = []
    span = 8 if tier == "quick" else 14
    maint = []
    for t in MAINT_TIMEOUTS:
        for h in sorted({1.5, 10.0, 90.0, t - 2.0, t + 2.0, t / 2}):
            if h > 0:
                maint.append(dict(level="maintenance", kind="redis", n=1, timeout=t, held_for=h))
    out.append(dict(overlap=maint))
    for kind in ("mem", "redis", "amqp"):
        for a in OVERLAP_A:
            for b in OVERLAP_B:
                out.append(dict(overlap=[dict(level="overlap", kind=kind, n=1, op_a=a, op_b=b, d=d)
                                         for d in range(-span, span + 1)]))
    pw = pause_words(6 if tier == "quick" else 7)
    for kind in ("mem", "redis", "amqp"):
        for lo in range(0, len(pw), 150):
            out.append(dict(overlap=[dict(level="pause-word", kind=kind, n=2, word=wd) for wd in pw[lo:lo + 150]]))
    for scn in base_scenarios(tier):
        base, _, _ = run_one(scn, None)
        n_it = base["iters"]
        # sweeps (0 deviations): second participant starts at every iteration
        ks = list(range(0, n_it))
        chunk = 40
        for lo in range(0, len(ks), chunk):
            out.append(dict(scn=scn, sweep="start2_at", ks=ks[lo:lo + chunk]))
        if scn["level"] == "worker":
            for lo in range(0, len(ks), chunk):
                out.append(dict(scn=scn, sweep="stop1_at", ks=ks[lo:lo + chunk]))
        # request-order deviations on the server models
        if scn["kind"] != "mem":
            want = lambda l: l.startswith("order:") or l == "amqp-order" or l.startswith("stall:")
            for alt in alternatives(base["points"], want=want):
                out.append(dict(scn=scn, dev=[alt], bound=bound - 1))
            # and with the second participant started a little later
            for k in (n_it // 4, n_it // 2):
                s2 = dict(scn, start2_at=k)
                b2, _, _ = run_one(s2, None)
                for alt in alternatives(b2["points"], want=want):
                    out.append(dict(scn=s2, dev=[alt], bound=bound - 1))
    return out


def run_job(job):
    acc = Acc()
    scn = job.get("scn")

    def record(s, dev, r, viol, summary):
        acc.executions += 1
        acc.handles += r["handles"]
        acc.choice_points += len(r["points"]) + 1
        acc.outcomes.add(digest([s["level"], s["kind"], s["n"], summary]))
        acc.phases[s["level"] + (":deviated" if dev else ":sweep")] += 1
        stalled = " stalled-take" if dev and any(d[2] == "stall:MULTI" for d in dev) else ""
        for sig, what in viol:
            acc.violations.append(dict(
                signature=f"{s['kind']} {s['level']} {sig}{stalled}" + (f" {s['op_a']}||{s['op_b']}" if s["level"] == "overlap" else ""),
                what=what + f" [scenario {s}, deviations {dev}]",
                job=dict(scn=s, dev=dev, bound=0, one=True),
                detail=summary,
            ))
        if len(acc.samples) < 2:
            acc.samples.append(dict(scenario=s, deviations=dev, observed=summary))

    if "overlap" in job:
        for s_ in job["overlap"]:
            r, viol, summary = run_one(s_, None)
            record(s_, None, r, viol, summary)
        return acc.to_dict()
    if job.get("one"):
        r, viol, summary = run_one(scn, job.get("dev"))
        record(scn, job.get("dev"), r, viol, summary)
        return acc.to_dict()
    if "sweep" in job:
        for k in job["ks"]:
            s = dict(scn)
            s[job["sweep"]] = k
            r, viol, summary = run_one(s, None)
            record(s, None, r, viol, summary)
        return acc.to_dict()
    # deviation subtree
    want = lambda l: l.startswith("order:") or l == "amqp-order" or l.startswith("stall:")

    def explore(dev, bound):
        r, viol, summary = run_one(scn, dev)
        record(scn, dev, r, viol, summary)
        if bound <= 0 or viol:
            return
        for alt in alternatives(r["points"], after=dev[-1][0], want=want):
            explore(dev + [alt], bound - 1)

    explore(job["dev"], job["bound"])
    return acc.to_dict()
