"""C05 - Delayed messages are never delivered early and never forgotten.

Grid of due offsets x position inside the clock second x consumer polling phase x broker, pairs of
delayed messages, and a sweep of the enqueue instant over a polling period; every cell runs the
real broker / consumer code in virtual time and records when consume() hands the message over.
"""
import asyncio

from repid.message import MessageCategory

from ..explore import Acc, digest
from ..harness import Exec
from ..vloop import CLOCK, NS

ID = "C05"
LEVEL = "model_checking"
RULE = ("full product of due offset x phase of 'now' inside the clock second x consumer mode x broker, all ordered "
        "pairs of delays, and an enqueue-instant sweep over one polling period; distinct = distinct (cell, delivery "
        "time relative to the due time in ms)")
ASSUMPTIONS = [
    "Redis / RabbitMQ replaced by in-process models; RabbitMQ per-message TTL is evaluated at the queue head only "
    "(documented behaviour of classic queues)",
    "latency bound L = 2.5 s (in-memory, Redis: 1 s delayed-queue refresh / whole-second scores plus polling), "
    "0.5 s (RabbitMQ) - generous multiples of the documented polling constants",
    "far-future due times are approached by stepping the wall clock (in-memory, Redis); on RabbitMQ only "
    "'not early' is checked for them (server-side TTL timers follow the loop clock)",
]

L = {"mem": 2.5, "redis": 2.5, "amqp": 0.5}
DELTAS = [-1.0, 0.0, 0.3, 0.999, 1.0, 1.7, 2.5, 86400.0, 100 * 365 * 86400.0]
PHASES = [0.0, 0.25, 0.5, 0.999]
MODES = ["before0", "before0.4", "before0.9", "after", "paused"]


def cells(tier):
    out = []
    for kind in ("mem", "redis", "amqp"):
        for d in DELTAS:
            for ph in PHASES:
                for mode in MODES:
                    out.append(dict(kind=kind, t="single", delta=d, phase=ph, mode=mode))
        for a, b in [(5.0, 1.0), (1.0, 5.0), (2.0, 2.0), (3.3, 0.4), (0.4, 3.3)]:
            for ph in (0.0, 0.5):
                out.append(dict(kind=kind, t="pair", deltas=[a, b], phase=ph))
        for d in (0.7, 1.5):
            out.append(dict(kind=kind, t="category", delta=d, phase=0.3))
        # an explicit due time on a message that also carries a period (shorter and longer than the delay)
        for d, period in [(2.5, 1.0), (1.7, 0.5), (0.999, 0.4), (2.5, 10.0), (86400.0, 60.0)]:
            for ph in (0.0, 0.5):
                for mode in ("before0", "after", "paused"):
                    out.append(dict(kind=kind, t="single", delta=d, phase=ph, mode=mode, recur=period))
        # east and west of UTC: one phase, every delta and consumer mode
        for tz in (9, -5):
            for d in DELTAS:
                for mode in MODES:
                    out.append(dict(kind=kind, t="single", delta=d, phase=0.25, mode=mode, tz=tz))
        step = 0.05 if tier == "quick" else 0.01
        n = int(round(1.0 / step))
        for i in range(n):
            out.append(dict(kind=kind, t="single", delta=1.3, phase=0.1, mode="sweep", off=round(i * step, 3)))
    return out


def execute(cell):
    from ..vloop import local_zone

    with local_zone(cell.get("tz", 0)):  # due times are naive local stamps
        return _execute(cell)


def _execute(cell):
    kind = cell["kind"]
    x = Exec(kind)
    w = x.world
    loop = x.loop
    viol = []
    got = {}
    due = {}
    try:
        async def setup():
            await w.connect()
            await w.broker.queue_declare("q")

        x.run(setup())
        loop.run_for(1.0 - (loop._ns % NS) / NS + cell["phase"])  # now = whole second + phase

        def consumer(cat=MessageCategory.NORMAL):
            return w.broker.get_consumer("q", None, None, cat)

        async def listen(c, n, stop_at_ns=None):
            for _ in range(n):
                key, payload, params = await c.consume()
                got.setdefault(key.id_, []).append((loop._ns + CLOCK.offset_ns, key, params))

        async def enqueue(mid, delta):
            # recur: the back-off of a retried recurring job - an explicit due time next to a period
            p = w.params(next_in=delta, defer_by=cell.get("recur"), retries=3 if cell.get("recur") else 0,
                         tried=1 if cell.get("recur") else 0)
            due[mid] = CLOCK.ns() + round(delta * NS)
            await w.broker.enqueue(w.key(mid), "p", p)

        if cell["t"] == "single":
            delta = cell["delta"]
            mode = cell["mode"]
            far = delta > 1000
            c = consumer()

            async def scenario():
                if mode.startswith("before"):
                    await c.start()
                    lt = asyncio.ensure_future(listen(c, 1))
                    await asyncio.sleep(float(mode[6:] or 0))
                    await enqueue("m0", delta)
                elif mode == "sweep":
                    await c.start()
                    lt = asyncio.ensure_future(listen(c, 1))
                    await asyncio.sleep(1.0 + cell["off"])
                    await enqueue("m0", delta)
                elif mode == "after":
                    await enqueue("m0", delta)
                    await asyncio.sleep(0.5)
                    await c.start()
                    lt = asyncio.ensure_future(listen(c, 1))
                else:  # paused
                    await c.start()
                    await c.pause()
                    lt = asyncio.ensure_future(listen(c, 1))
                    await enqueue("m0", delta)
                    await asyncio.sleep(0.5)
                    await c.unpause()
                return lt

            st, lt = x.run(scenario())
            assert st == "ok", (st, lt)
            if far:
                loop.run_for(3.0)
                if "m0" in got:
                    viol.append(("early", f"message due in {delta:.0f}s was delivered {3.0}s after the enqueue"))
                elif kind != "amqp":
                    # step the wall clock close to the due time
                    CLOCK.offset_ns += due["m0"] - CLOCK.ns() - round(0.5 * NS)
                    loop.run_for(0.4)
                    if "m0" in got:
                        viol.append(("early", f"message delivered {(due['m0'] - got['m0'][0][0]) / 1e6:.0f} ms before its far-future due time"))
                    loop.run_for(0.1 + L[kind] + 0.2)
            else:
                loop.run_for(max(delta, 0) + L[kind] + 1.2)
            lt.cancel()
        elif cell["t"] == "pair":
            c = consumer()

            async def scenario():
                await c.start()
                lt = asyncio.ensure_future(listen(c, 2))
                await enqueue("m0", cell["deltas"][0])
                await enqueue("m1", cell["deltas"][1])
                return lt

            st, lt = x.run(scenario())
            loop.run_for(max(cell["deltas"]) + L[kind] + 1.2)
            lt.cancel()
        else:  # category: before the due time only the DELAYED category sees the message
            cn = consumer()
            cd = consumer(MessageCategory.DELAYED)
            seen = {}

            async def scenario():
                await enqueue("m0", cell["delta"] + 3.0)
                await cn.start()
                ltn = asyncio.ensure_future(listen(cn, 1))
                await asyncio.sleep(0.5)
                await cd.start()
                try:
                    key, _, _ = await asyncio.wait_for(cd.consume(), 1.5)
                    seen["delayed"] = (key.id_, CLOCK.ns())
                    await w.broker.reject(key)
                except asyncio.TimeoutError:
                    seen["delayed"] = None
                await cd.finish()
                return ltn

            st, ltn = x.run(scenario())
            if seen.get("delayed") is None:
                viol.append(("not-visible-as-delayed", "a delayed message could not be read through the DELAYED category before its due time"))
            loop.run_for(cell["delta"] + 3.0 + L[kind] + 1.0)
            ltn.cancel()
        x.settle(0.2)
        # ---- oracle
        summary = {}
        for mid, t_due in due.items():
            far = (t_due - 0) > 1000 * NS and cell.get("delta", 0) > 1000
            if mid not in got:
                summary[mid] = None
                if not (far and kind == "amqp") and not any(v[0] == "early" for v in viol):
                    viol.append(("never-delivered", f"{mid} was not delivered within {L[kind]}s after its due time although a consumer was listening"))
                continue
            t = got[mid][0][0]
            summary[mid] = round((t - t_due) / 1e6)
            if t < t_due - 1_000_000:
                viol.append(("early", f"{mid} handed to a normal consumer {(t_due - t) / 1e6:.0f} ms before its due time"))
            # latency counts from the later of: due time, the moment a consumer was listening
            base = t_due
            if cell.get("mode") in ("after", "paused"):
                base = max(base, due_base_after(cell, t_due))
            else:
                base = max(base, t_due - round(cell.get("delta", 0.0) * NS) if "delta" in cell else t_due)
            if t - base > round(L[kind] * NS):
                viol.append(("late", f"{mid} delivered {(t - base) / 1e6:.0f} ms after it was due and a consumer was listening (bound {L[kind]}s)"))
            if len(got[mid]) > 1:
                viol.append(("delivered-twice", f"{mid} delivered {len(got[mid])} times"))
        handles = loop.handles
    finally:
        x.close()
    return handles, viol, summary


def due_base_after(cell, t_due):
    # in 'after' and 'paused' modes the consumer listens from 0.5 s after the enqueue
    delta = cell.get("delta", 0.0)
    enq = t_due - round(delta * NS)
    return enq + round(0.5 * NS)


def jobs(tier):
    cs = cells(tier)
    n = 12
    return [dict(cells=cs[i:i + n]) for i in range(0, len(cs), n)]


def run_job(job):
    acc = Acc()
    for cell in job["cells"]:
        handles, viol, summary = execute(cell)
        acc.executions += 1
        acc.handles += handles
        acc.choice_points += 1
        acc.outcomes.add(digest([cell, summary]))
        acc.phases[cell["t"] + ":" + str(cell.get("mode", ""))] += 1
        for sig, what in viol:
            acc.violations.append(dict(
                signature=f"{cell['kind']} {sig} {cell['t']}",
                what=what + f" [cell {cell}]",
                job=dict(cells=[cell]),
                detail=summary,
            ))
        if len(acc.samples) < 2:
            acc.samples.append(dict(cell=cell, delivered_ms_after_due=summary))
    return acc.to_dict()
