"""C06 - Recurring jobs: exactly one successor per run, on a steady cadence.

All sequences of actor durations (relative to the period) x per-iteration outcomes x first-run
settings, each one real Job.enqueue() + Worker.run() over several iterations in virtual time.
"""
import asyncio
import itertools
from datetime import datetime, timedelta

from repid import Job, MessageDependency
from repid.converter import BasicConverter

from ..explore import Acc, digest
from ..harness import actor_log
from ..scenario import fixed_policy, run_worker
from ..vloop import CLOCK, NS

ID = "C06"
LEVEL = "model_checking"
RULE = ("all sequences of actor durations in {0, .3p, .7p, 1.2p, 2.6p} of length 3 (quick) / 4 (thorough) x outcome "
        "pattern x first-run setting x period x broker; distinct = distinct (cell, scheduled times, start times)")
ASSUMPTIONS = [
    "cron recurrences are outside this check: croniter is not installed (compute_next_execution_time raises "
    "ImportError); the reschedule mechanism they share with defer_by is covered",
    "Redis / RabbitMQ replaced by in-process models",
]

DURS = [0.0, 0.3, 0.7, 1.2, 2.6]
OUTCOMES = ["ok", "fail0", "fail1"]
FIRST = ["none", "future", "past"]
RETRY_DELAY = 0.2


def cells(tier):
    out = []
    if tier == "quick":
        plan = [("mem", [1.0, 2.5], 3), ("redis", [2.5], 2), ("amqp", [2.5], 2)]
    else:
        plan = [("mem", [1.0, 2.5, 10.0], 4), ("redis", [1.0, 2.5], 3), ("amqp", [1.0, 2.5], 3)]
    for kind, periods, length in plan:
        for p in periods:
            for seq in itertools.product(range(len(DURS)), repeat=length):
                for outcome in OUTCOMES:
                    for first in FIRST:
                        out.append(dict(kind=kind, p=p, seq=list(seq), outcome=outcome, first=first))
    # results stored after every iteration, the result store working or down for the whole run: the successor
    # does not depend on it
    for kind in ("mem", "redis", "amqp"):
        for seq in itertools.product(range(len(DURS)), repeat=2):
            for outcome in OUTCOMES:
                for store in ("up", "down"):
                    out.append(dict(kind=kind, p=2.5, seq=list(seq), outcome=outcome, first="none", store=store))
    # the schedule's base lies more than a day back (a job created a day ago that no worker has run yet):
    # day-sized distances take part in the arithmetic
    for kind in ("mem", "redis", "amqp"):
        for seq in itertools.product(range(len(DURS)), repeat=2):
            out.append(dict(kind=kind, p=2.5, seq=list(seq), outcome="ok", first="longpast"))
    # the process east / west of UTC: every pair of durations
    for kind in ("mem", "redis", "amqp"):
        for tz in (9, -5):
            for seq in itertools.product(range(len(DURS)), repeat=2):
                for first in FIRST:
                    out.append(dict(kind=kind, p=2.5, seq=list(seq), outcome="ok", first=first, tz=tz))
    return out


def _dt(s):
    return None if s is None else datetime.fromisoformat(s)


def execute(cell):
    from ..vloop import local_zone

    with local_zone(cell.get("tz", 0)):  # schedules are naive local stamps
        return _execute(cell)


def _execute(cell):
    p = cell["p"]
    seq = [DURS[i] * p for i in cell["seq"]]
    n_iter = len(seq)
    retries = 1 if cell["outcome"] == "fail1" else 0
    snapshots = []

    def build(x, worker):
        w = x.world
        state = {"it": 0, "attempt": 0}

        async def tick(m: MessageDependency):
            mid = m.key.id_
            it = state["it"]
            others = [e["place"] for e in w.observe().get(mid, [])]
            actor_log(w, mid, "start", dict(it=it, tried=m.parameters.retries.already_tried, places=others))
            if it >= n_iter:
                await asyncio.sleep(3600)
            await asyncio.sleep(seq[it])
            if cell["outcome"] == "fail0" or (cell["outcome"] == "fail1" and state["attempt"] == 0):
                if cell["outcome"] == "fail1":
                    state["attempt"] = 1
                else:
                    state["it"] = it + 1
                actor_log(w, mid, "fail")
                raise ValueError("iteration failed")
            state["attempt"] = 0
            state["it"] = it + 1
            actor_log(w, mid, "ok")

        worker.actor(tick, name="tick", queue="q", converter=BasicConverter, retry_policy=fixed_policy(RETRY_DELAY))

    info = {}

    async def pre(x):
        now = CLOCK.now()
        du = None
        if cell["first"] == "future":
            du = now + timedelta(seconds=1.3 * p)
        elif cell["first"] == "past":
            du = now - timedelta(seconds=5)
        elif cell["first"] == "longpast":
            # created a day ago, never run since (no worker was up): enqueued as the broker holds it now
            p_ = x.world.params(defer_by=p, ts_shift=-(86400 + 7.3), timeout=1000.0, retries=retries)
            await x.world.broker.enqueue(x.world.key("rec", "tick", "q"), "", p_)
            info["t0"] = now
            info["du"] = None
            info["first_next"] = p_.compute_next_execution_time
            return
        job = Job("tick", queue="q", id_="rec", deferred_by=timedelta(seconds=p), deferred_until=du,
                  retries=retries, timeout=timedelta(seconds=1000), ttl=timedelta(seconds=500),
                  store_result=bool(cell.get("store")), _connection=x.world.conn)
        key, _, params = await job.enqueue()
        info["t0"] = now
        info["du"] = du
        info["first_next"] = params.compute_next_execution_time

    horizon = 1.3 * p + sum((2 if cell["outcome"] == "fail1" else 1) * max(d, p) + p + RETRY_DELAY for d in seq) + 2 * p + 2
    def configure(x):
        x.world.bucket_down = cell.get("store") == "down"

    res = run_worker(cell["kind"], build=build, messages=[], pre=pre, stop_at=horizon, configure=configure,
                     buckets="results" if cell.get("store") else None,
                     worker_kw=dict(graceful_shutdown_time=0.1), max_iters=3_000_000, settle=0.5)
    viol = []
    if res.status != "ok":
        viol.append(("worker-died", f"Worker.run() ended with {res.status}: {res.value!r}"))
    t0 = info["t0"]

    def rel(d):
        return None if d is None else round((d - t0).total_seconds(), 6)

    starts = [(r[0], r[4]) for r in res.log if r[1] == "actor" and r[2] == "start" and r[4]["tried"] == 0]
    resched = [(r[0], r[5]) for r in res.log
               if r[1] == "call" and r[2] == "requeue" and r[7] == 0 and r[5]["tried"] == 0 and r[5]["defer_by"] is not None]
    # scheduled time of the first iteration
    S = info["first_next"]
    if cell["first"] == "future" and S != info["du"]:
        viol.append(("first-run", f"first run scheduled at {rel(S)}s, deferred_until was {rel(info['du'])}s"))
    sched = [rel(S)]
    base_ns = 0  # virtual ns at setup == t0
    for k, (ns, pv) in enumerate(resched):
        now_s = ns / NS
        nxt = rel(_dt(pv["next"]))
        ts = rel(_dt(pv["ts"]))
        if nxt is None:
            viol.append(("no-next", f"reschedule {k} carries no next execution time"))
            continue
        if not (now_s < nxt <= now_s + p + 1e-6):
            viol.append(("window", f"iteration {k} ended at {now_s:.3f}s, next scheduled at {nxt:.3f}s: not within (now, now+{p}]"))
        if nxt < sched[-1] + p - 1e-6:
            viol.append(("cadence", f"iteration {k} was scheduled for {sched[-1]:.3f}s, its successor for {nxt:.3f}s: less than one period ({p}s) apart"))
        if abs(ts - now_s) > 1e-3:
            viol.append(("ttl-clock", f"reschedule {k} at {now_s:.3f}s carries timestamp {ts:.3f}s: time-to-live clock not restarted"))
        sched.append(nxt)
    # one reschedule per completed iteration
    completed = sum(1 for r in res.log if r[1] == "actor" and r[2] in ("ok",)) + \
        (sum(1 for r in res.log if r[1] == "actor" and r[2] == "fail") if cell["outcome"] == "fail0" else 0)
    if len(resched) != completed:
        viol.append(("successors", f"{completed} iterations completed but {len(resched)} successors were scheduled"))
    if completed < n_iter:
        viol.append(("stalled", f"only {completed} of {n_iter} iterations ran within {horizon:.1f}s"))
    # starts: never before the scheduled time; exactly one copy while running
    for k, (ns, d) in enumerate(starts):
        if k < len(sched) and ns / NS < sched[k] - 0.001:
            viol.append(("early-start", f"iteration {k} started at {ns / NS:.3f}s, scheduled for {sched[k]:.3f}s"))
        if d["places"] != ["held"]:
            viol.append(("copies", f"while iteration {k} runs the message is in {d['places']}"))
    ents = res.obs.get("rec", [])
    places = [(e["place"], e["params"]["tried"] if e["params"] else None) for e in ents]
    if len(places) != 1 or places[0][0] not in ("delayed", "waiting") or places[0][1] != 0:
        viol.append(("copies", f"after the run the recurring message is in {places}, expected exactly one scheduled copy with counter 0"))
    summary = dict(sched=sched, starts=[round(s[0] / NS, 3) for s in starts], places=places)
    return res, viol, summary


def jobs(tier):
    cs = cells(tier)
    cs.sort(key=lambda c: -c["p"] * len(c["seq"]))
    n = 12
    return [dict(cells=cs[i:i + n]) for i in range(0, len(cs), n)]


def run_job(job):
    acc = Acc()
    for cell in job["cells"]:
        res, viol, summary = execute(cell)
        acc.executions += 1
        acc.handles += res.handles
        acc.choice_points += len(cell["seq"])
        acc.outcomes.add(digest([cell, summary]))
        acc.phases[cell["outcome"]] += 1
        for sig, what in viol:
            acc.violations.append(dict(
                signature=f"{cell['kind']} {sig}",
                what=what + f" [cell {cell}]",
                job=dict(cells=[cell]),
                detail=summary,
            ))
        if len(acc.samples) < 2:
            acc.samples.append(dict(cell=cell, observed=summary))
    return acc.to_dict()
