"""C01 - Broker operations never lose or duplicate a message.

Explicit-state breadth-first search over histories of broker-API calls made by well-behaved
clients, on each real broker (in-memory; Redis and RabbitMQ clients on the environment
models).  Every transition rebuilds a fresh world, replays the history on the real code and
compares the broker-side state with a reference model after the last operation.  States are
merged on a canonical key (model state + observed state, times relative to now).
Second part: every distinct (state, operation) pair is re-run with the operation's task
cancelled before each of its loop iterations; the result must be the pre- or the post-state.

Time: operation i runs inside the window [i, i+1) virtual seconds; due times are offsets of
x.5 seconds, so nothing is ever due exactly at a window boundary.
"""
from __future__ import annotations

import asyncio
import json
from datetime import timedelta

from repid.message import MessageCategory

from ..explore import Acc, digest, pmap
from ..harness import Exec
from ..vloop import CLOCK, NS
from ..world import params_view

ID = "C01"
LEVEL = "model_checking"
RULE = ("breadth-first search over broker-API histories (alphabet in DESIGN.md C01); a state is a history, "
        "merged on canonical key = reference-model state + observed broker state with times relative to now; "
        "distinct = distinct canonical states; every transition executes the whole history on the real broker code")
ASSUMPTIONS = [
    "Redis / RabbitMQ are in-process models of their documented semantics (env/fake_redis, env/fake_amqp)",
    "clients are well-behaved: terminal actions only on messages they currently hold, ids never reused",
    "operation windows of one virtual second; due times never coincide with a window boundary",
]

MSGS = {"m0": "t0", "m1": "t0", "m2": "t1"}
CONSUMERS = {
    # name: (category, topics)
    "cN0": ("NORMAL", ["t0"]),
    "cN1": ("NORMAL", None),
    "cD": ("DELAYED", None),
    "cX": ("DEAD", None),
}
ENQ_WHEN = {"now": None, "soon": 2.5, "later": 30.5, "past": -1.0}
WINDOW = 1.0
CANCEL_ITERS = 40
DEVIATE_OPS = ("ack", "nack", "reject", "requeue", "consume", "finish", "enq")
OP_BUDGET = 0.9


# --------------------------------------------------------------------------------------
# reference model
# --------------------------------------------------------------------------------------
class Model:
    def __init__(self, nmsgs: int, consumers, kind="mem"):
        self.kind = kind
        self.nmsgs = nmsgs
        self.t = 0  # windows elapsed
        # id -> dict(place, due (abs s or None), holder, src, payload, tried, noparams)
        self.m: dict[str, dict] = {}
        self.c = {name: dict(started=False) for name in consumers}
        self.consumers = consumers

    # places: waiting | delayed | held (by app, via consumer `holder`) | dead | acked
    def deliverable(self, mid, cname, now, must=False, any_topic=False) -> bool:
        """may (default): could consumer `cname` legitimately receive `mid` around time `now`?
        must: is the broker obliged to hand it to `cname` if asked at `now`?
        (Early delivery of delayed messages is C05's subject; here one second of slack.)"""
        x = self.m[mid]
        cat, topics = CONSUMERS[cname]
        if topics is not None and MSGS[mid] not in topics and not any_topic:
            return False
        if cat == "NORMAL":
            if x["place"] == "waiting":
                return True
            if must:  # when a delayed message has to arrive is C05's subject
                return False
            return x["place"] == "delayed" and x["due"] <= now + 1.0
        if cat == "DELAYED":
            # a message that is already due behaves like a normal one on every broker
            return x["place"] == "delayed" and (not must or x["due"] > now + WINDOW)
        return x["place"] == "dead"

    def enabled(self):
        ops = []
        ids = list(MSGS)[: self.nmsgs]
        nxt = next((i for i in ids if i not in self.m), None)
        if nxt is not None:
            for when in ENQ_WHEN:
                ops.append(["enq", nxt, when])
            if nxt == "m1":
                ops.append(["enq", nxt, "noparams"])
            if nxt == "m0" and not any(v["started"] for v in self.c.values()):
                # a start state of its own: the first message is dead-lettered already (enqueue, take, nack
                # as one step), so that the dead category is reached within the depth bound
                ops.append(["enq", nxt, "dead"])
        for c in self.consumers:
            if self.c[c]["started"]:
                ops.append(["consume", c])
                ops.append(["finish", c])
            else:
                ops.append(["start", c])
        for mid, x in self.m.items():
            if x["place"] == "held":
                ops.append(["ack", mid])
                ops.append(["reject", mid])
                ops.append(["requeue", mid, "same"])
                ops.append(["requeue", mid, "new"])
                if x["src"] == "NORMAL":
                    ops.append(["nack", mid])
        if self.m:
            ops.append(["tick", 1])
            ops.append(["tick", 3])
        return ops

    def key(self):
        now = self.t * WINDOW
        return [
            sorted(
                (mid, x["place"], None if x["due"] is None else round(min(max(x["due"] - now, -5), 40), 1),
                 x["holder"], x["src"], x["payload"], x["tried"], x["noparams"])
                for mid, x in self.m.items()
            ),
            sorted((c, v["started"]) for c, v in self.c.items()),
        ]


def _place_ok(model: Model, mid: str, entries: list, now: float, holders: dict) -> str | None:
    """Is the observed placement of `mid` one the model allows?  Returns a complaint or None."""
    x = model.m[mid]
    places = [e["place"] for e in entries]
    if x["place"] == "acked":
        return None if not places else f"acknowledged message still present in {places}"
    if len(places) == 0:
        return f"is in no place (model: {x['place']})"
    if len(places) > 1:
        return f"is in several places {places} (model: {x['place']})"
    p = places[0]
    if x["place"] == "held":
        if p == "held" and holders.get(mid):
            return f"is prefetched by several consumers {sorted(set(holders[mid] + [x['holder']]))}"
        return None if p == "held" else f"is held by the application via {x['holder']} but the broker has it in {p}"
    if p == "held":
        # not returned to the application: legal only while prefetched by a started consumer
        # that may receive it
        hs = holders.get(mid, [])
        if len(hs) > 1:
            return f"is prefetched by several consumers {hs}"
        # RabbitMQ filters topics on the client: a started consumer also holds foreign messages for
        # the moment it needs to reject them
        ok = any(model.c[c]["started"] and model.deliverable(mid, c, now, any_topic=model.kind == "amqp")
                 for c in model.consumers)
        return None if ok else f"is marked in flight though no started consumer may hold it (model: {x['place']})"
    if x["place"] == "waiting":
        return None if p == "waiting" else f"should be waiting but is in {p}"
    if x["place"] == "delayed":
        if p == "delayed":
            return None
        if p == "waiting" and x["due"] <= now:
            return None  # a due message may have been moved to the normal queue
        return f"should be delayed (due in {x['due'] - now:+.1f}s) but is in {p}"
    if x["place"] == "dead":
        return None if p == "dead" else f"should be dead-lettered but is in {p}"
    return f"unknown model place {x['place']}"


# --------------------------------------------------------------------------------------
# executing a history on the real broker
# --------------------------------------------------------------------------------------
def _params_for(w, when, tried=0):
    if when == "noparams":
        return None
    off = ENQ_WHEN[when]
    return w.params(retries=3, tried=tried, next_in=off)


class Runner:
    def __init__(self, kind, nmsgs, consumers, deviations=None):
        self.kind = kind
        self.x = Exec(kind, deviations=deviations)
        self.w = self.x.world
        self.model = Model(nmsgs, consumers, kind)
        self.cons = {}
        self.viol: list = []
        self.base_ns = None

    def close(self):
        self.x.close()

    def setup(self):
        async def go():
            await self.w.connect()
            await self.w.broker.queue_declare("q")
        st, v = self.x.run(go())
        assert st == "ok", (st, v)
        # align to a whole second
        self._align()
        self.base_ns = self.x.loop._ns

    def _align(self):
        loop = self.x.loop
        nxt = ((loop._ns + NS - 1) // NS) * NS
        if nxt > loop._ns:
            loop.run_for((nxt - loop._ns) / NS)

    def now(self) -> float:
        return (self.x.loop._ns - self.base_ns) / NS

    def _consumer(self, c):
        if c not in self.cons:
            cat, topics = CONSUMERS[c]
            # cN1 has a local prefetch window of one message (a full local queue is a state of its own)
            self.cons[c] = self.w.broker.get_consumer("q", topics, 1 if c == "cN1" else None, MessageCategory[cat])
        return self.cons[c]

    def _coro(self, op):
        w, b = self.w, self.w.broker
        kind = op[0]
        if kind == "enq" and op[2] == "dead":
            async def enq_dead():
                await b.enqueue(w.key(op[1], MSGS[op[1]]), f"p:{op[1]}", _params_for(w, "now"))
                tmp = b.get_consumer("q", None, None, MessageCategory.NORMAL)
                await tmp.start()
                k_, _, _ = await tmp.consume()
                await b.nack(k_)
                await tmp.finish()
            return enq_dead()
        if kind == "enq":
            return b.enqueue(w.key(op[1], MSGS[op[1]]), f"p:{op[1]}", _params_for(w, op[2]))
        if kind == "start":
            return self._consumer(op[1]).start()
        if kind == "finish":
            return self._consumer(op[1]).finish()
        if kind == "consume":
            return self._consumer(op[1]).consume()
        mid = op[1]
        key = w.key(mid, MSGS[mid])
        if kind == "ack":
            return b.ack(key)
        if kind == "nack":
            return b.nack(key)
        if kind == "reject":
            return b.reject(key)
        if kind == "requeue":
            x = self.model.m[mid]
            if op[2] == "same":
                p = w.params(retries=3, tried=x["tried"])
                return b.requeue(key, x["payload"], p)
            p = w.params(retries=3, tried=x["tried"] + 1, next_in=1.5)
            return b.requeue(key, f"new:{mid}", p)
        raise AssertionError(op)

    def step(self, op, cancel_at=None):
        """Run one operation in its window.  Returns (status, result, iterations)."""
        loop = self.x.loop
        t0 = loop._ns
        model = self.model
        if op[0] == "tick":
            loop.run_for(op[1] * WINDOW)
            model.t += op[1]
            return ("ok", None, 0)
        task = asyncio.ensure_future(self._coro(op), loop=loop)
        it0 = loop.iterations
        limit = t0 + round(OP_BUDGET * NS)
        status = "ok"
        cancelled_by_sweep = False
        while not task.done():
            if cancel_at is not None and loop.iterations - it0 == cancel_at and not cancelled_by_sweep:
                task.cancel()
                cancelled_by_sweep = True
            nt = loop.next_timer_ns()
            if not loop._ready and not loop._io and not self._server_pending() and (nt is None or nt > limit):
                break
            loop.step()
        iters = loop.iterations - it0
        if not task.done():
            status = "blocked"
            task.cancel()
            for _ in range(1000):
                if task.done():
                    break
                loop.step()
        res = None
        if task.cancelled():
            status = "cancelled" if cancelled_by_sweep else "blocked"
        elif task.done() and task.exception() is not None:
            status = "exc"
            res = task.exception()
        elif task.done():
            res = task.result()
        # rest of the window
        end = t0 + round(WINDOW * NS)
        if loop._ns < end:
            loop.run_for((end - loop._ns) / NS)
        model.t += 1
        return (status, res, iters)

    def _server_pending(self):
        s = self.w.server
        return bool(s is not None and s.busy())

    # -- observation ---------------------------------------------------------------------------
    def holders(self):
        """Which consumer objects have a message in their local (prefetch) queue."""
        out: dict = {}
        for c, cons in self.cons.items():
            q = getattr(cons, "queue", None)
            if q is not None:
                for item in list(q._queue):
                    out.setdefault(item[0].id_, []).append(c)
        return out

    def check(self, op, status, res, pre_due_snapshot):
        """Update the model with the operation's legal effect and compare with the broker."""
        model = self.model
        v = self.viol
        now_end = model.t * WINDOW
        now_start = now_end - WINDOW
        kind = op[0]
        if status == "exc":
            v.append((f"{kind}-raised", f"{op} raised {type(res).__name__}: {res}"))
            return
        if kind == "enq":
            mid, when = op[1], op[2]
            off = None if when in ("noparams", "dead") else ENQ_WHEN[when]
            model.m[mid] = dict(place="dead" if when == "dead" else "waiting" if off is None else "delayed",
                                due=None if off is None else now_start + off,
                                holder=None, src=None, payload=f"p:{mid}", tried=0, noparams=when == "noparams")
        elif kind == "start":
            model.c[op[1]]["started"] = True
        elif kind == "finish":
            model.c[op[1]]["started"] = False
        elif kind == "consume":
            c = op[1]
            if status == "ok":
                key, payload, params = res
                mid = key.id_
                x = model.m.get(mid)
                if x is None:
                    v.append(("consume-unknown", f"consume({c}) returned unknown id {mid}"))
                elif x["place"] == "held":
                    v.append(("delivered-twice", f"consume({c}) returned {mid} which {x['holder']} still holds"))
                elif x["place"] in ("acked",):
                    v.append(("delivered-after-ack", f"consume({c}) returned acknowledged {mid}"))
                elif not model.deliverable(mid, c, now_end):
                    v.append(("consume-undeliverable",
                              f"consume({c}) returned {mid} which is {x['place']}"
                              f"{'' if x['due'] is None else ' due in %+.1fs' % (x['due'] - now_end)}"
                              f" (topic {MSGS[mid]})"))
                else:
                    if payload != x["payload"]:
                        v.append(("payload-differs", f"consume({c}) returned payload {payload!r} for {mid}, enqueued {x['payload']!r}"))
                    if key.topic != MSGS[mid] or key.queue != "q" or key.priority != 5:
                        v.append(("key-differs", f"consume({c}) returned key {key} for {mid}"))
                    if not x["noparams"] and params.retries.already_tried != x["tried"]:
                        v.append(("params-differ", f"consume({c}) returned already_tried={params.retries.already_tried} for {mid}, model {x['tried']}"))
                    x.update(place="held", holder=c, src=CONSUMERS[c][0])
            # blocked: judged against the observation below
        elif kind == "ack":
            model.m[op[1]].update(place="acked", holder=None)
        elif kind == "nack":
            model.m[op[1]].update(place="dead", holder=None)
        elif kind == "reject":
            x = model.m[op[1]]
            src = x["src"]
            x.update(holder=None)
            if src == "NORMAL":
                x["place"] = "waiting" if x["due"] is None else "delayed"
            elif src == "DELAYED":
                x["place"] = "delayed"
            else:
                x["place"] = "dead"
        elif kind == "requeue":
            x = model.m[op[1]]
            x.update(holder=None, noparams=False)
            if op[2] == "same":
                x.update(place="waiting", due=None)
            else:
                x.update(place="delayed", due=now_start + 1.5, payload=f"new:{op[1]}", tried=x["tried"] + 1)

        obs = self.w.observe()
        holders = self.holders()
        if kind == "finish":
            # whatever the finished consumer had prefetched must be back (checked by _compare);
            # messages it had handed to the application either stay held or are returned to
            # the category they came from ("returned by its holder's shutdown") - the model
            # follows the broker there
            c = op[1]
            for mid, x in model.m.items():
                ents = obs.get(mid, [])
                if x["place"] == "held" and x["holder"] == c and len(ents) == 1 and \
                        (ents[0]["place"] != "held" or holders.get(mid)):
                    p = ents[0]["place"]
                    if p == "held":
                        # returned and already prefetched again by another started consumer
                        p = "delayed" if x["due"] is not None else "waiting"
                        if x["src"] == "DEAD":
                            p = "dead"
                    legal = {"NORMAL": ("waiting", "delayed"), "DELAYED": ("delayed",), "DEAD": ("dead",)}[x["src"]]
                    if x["src"] == "DELAYED" and x["due"] is not None and x["due"] <= now_end:
                        legal = ("delayed", "waiting")  # already due: behaves like a normal message
                    if p in legal:
                        x.update(holder=None)
                        if p == "dead":
                            x["place"] = "dead"
                        else:
                            x["place"] = "waiting" if x["due"] is None else "delayed"
        self._compare(obs, holders, now_end, op)
        if kind == "consume" and status == "blocked":
            c = op[1]
            for mid in model.m:
                if pre_due_snapshot.get((mid, c)):
                    ents = obs.get(mid, [])
                    if len(ents) == 1 and ents[0]["place"] in ("waiting", "delayed", "dead") \
                            and model.m[mid]["place"] != "held":
                        v.append(("consume-starved",
                                  f"consume({c}) did not return within {OP_BUDGET}s although {mid} was deliverable "
                                  f"to it the whole time and is still in the queue"))
                        break

    def _compare(self, obs, holders, now, op):
        model = self.model
        v = self.viol
        for mid in model.m:
            ents = obs.get(mid, [])
            msg = _place_ok(model, mid, ents, now, holders)
            if msg is not None:
                x = model.m[mid]
                # the model follows the broker where the specification leaves a choice
                cls = _classify(msg)
                # who observes a double prefetch is irrelevant to what it is
                sig = cls if cls == "prefetched-twice" else f"{op[0]}: {cls}"
                v.append((sig, f"after {op}: {mid} {msg}"))
                continue
            x = model.m[mid]
            if ents and ents[0]["params"] is not None and x["place"] != "acked":
                e = ents[0]
                if e["payload"] != x["payload"]:
                    v.append((f"{op[0]}: payload-differs", f"after {op}: {mid} stored payload {e['payload']!r}, model {x['payload']!r}"))
                if not x["noparams"] and e["params"]["tried"] != x["tried"]:
                    v.append((f"{op[0]}: params-differ", f"after {op}: {mid} stored already_tried {e['params']['tried']}, model {x['tried']}"))
        for mid in obs:
            if mid.startswith("__"):
                continue
            if mid not in model.m:
                v.append((f"{op[0]}: ghost", f"after {op}: unknown id {mid} in the broker"))
        if obs.get("__orphans__"):
            v.append((f"{op[0]}: ghost", f"after {op}: {obs['__orphans__']}"))
        if obs.get("__leaks__"):
            leaked = [l for l in obs["__leaks__"]]
            acked = [l for l in leaked if model.m.get(l.split(":")[-1], {}).get("place") == "acked"]
            if acked:
                v.append((f"{op[0]}: data-left-behind", f"after {op}: message data of acknowledged messages remains: {acked}"))

    def obs_key(self):
        obs = self.w.observe()
        now = CLOCK.now()
        out = []
        for mid in sorted(obs):
            if mid.startswith("__"):
                out.append((mid, obs[mid]))
                continue
            for e in obs[mid]:
                p = e["params"]
                nxt = None
                if p is not None and p["next"] is not None:
                    from datetime import datetime as _dt
                    nxt = round(min(max((_dt.fromisoformat(p["next"]) - now).total_seconds(), -5), 40), 1)
                out.append((mid, e["place"], e["payload"], None if p is None else p["tried"], nxt,
                            e.get("reject_to")))
        return [out, sorted(self.holders().items())]


def _classify(msg: str) -> str:
    for k, s in (("no place", "lost"), ("several places", "duplicated"), ("acknowledged message still", "not-removed"),
                 ("held by the application", "taken-away"), ("in flight though", "left-in-flight"),
                 ("prefetched by several", "prefetched-twice"), ("should be", "wrong-place")):
        if k in msg:
            return s
    return "mismatch"


def run_history(kind, nmsgs, consumers, hist, cancel_at=None, deviations=None, choices_on_last=False, epilogue=False):
    """Replay `hist` (all but the last op assumed clean), check the last op.
    Returns dict(viol, key, enabled, iters).  With `choices_on_last` the server's timing becomes a
    choice from the start of the last operation (stalled Redis requests, late RabbitMQ completions);
    `deviations` replays such choices."""
    r = Runner(kind, nmsgs, consumers, deviations)
    try:
        r.setup()
        last = len(hist) - 1
        iters = 0
        status = None
        n0 = 0
        for i, op in enumerate(hist):
            if i == last and choices_on_last and r.w.server is not None:
                n0 = len(r.x.chooser.points)
                for flag in ("stall_choice", "late_choice"):
                    if hasattr(r.w.server, flag):
                        setattr(r.w.server, flag, True)
            snap = {}
            if op[0] == "consume":
                now = r.model.t * WINDOW
                # a consumer whose prefetch window is full of unsettled messages need not deliver more
                held_by_c = sum(1 for x_ in r.model.m.values() if x_["place"] == "held" and x_["holder"] == op[1])
                window_full = op[1] == "cN1" and held_by_c >= 1
                for mid in r.model.m:
                    snap[(mid, op[1])] = (not window_full and r.model.deliverable(mid, op[1], now, must=True)
                                          and r.model.m[mid]["place"] != "held")
            if i == last and cancel_at is not None:
                pre_model = json.dumps(r.model.key())
                pre_m = {k: dict(v) for k, v in r.model.m.items()}
                pre_c = {k: dict(v) for k, v in r.model.c.items()}
                status, res, iters = r.step(op, cancel_at)
                if status != "cancelled":
                    return dict(viol=[], key=None, enabled=[], iters=iters, status=status)
                # atomicity: the broker must be in the pre-state or in the post-state
                post_viol = []
                r.viol = post_viol
                r.check(op, "ok" if op[0] != "consume" else "blocked", None, snap)
                if post_viol:
                    # try the pre-state
                    r.model.m = pre_m
                    r.model.c = pre_c
                    pre_viol = []
                    r.viol = pre_viol
                    obs = r.w.observe()
                    r._compare(obs, r.holders(), r.model.t * WINDOW, op)
                    if pre_viol:
                        cls = post_viol[0][0].split(": ")[-1]
                        if cls == "prefetched-twice":
                            return dict(viol=[post_viol[0]], key=None, enabled=[], iters=iters, status=status)
                        return dict(viol=[(f"cancelled {op[0]}: {cls}",
                                           f"{op} cancelled at its iteration {cancel_at}: broker state is neither the "
                                           f"state before the call ({pre_viol[0][1]}) nor after it ({post_viol[0][1]})")],
                                    key=None, enabled=[], iters=iters, status=status)
                    if op[0] in ("ack", "nack", "reject", "requeue"):
                        # the call had no effect: the client still holds the message, so repeating the call
                        # must work (client-side state such as a delivery tag must not have been dropped)
                        again = []
                        r.viol = again
                        st2, res2, _ = r.step(op)
                        r.check(op, st2, res2, snap)
                        if again:
                            return dict(viol=[(f"cancelled {op[0]}: cannot be repeated",
                                               f"{op} cancelled at its iteration {cancel_at} left the message held, but "
                                               f"repeating the call does not settle it: {again[0][1]}")],
                                        key=None, enabled=[], iters=iters, status=status)
                return dict(viol=[], key=None, enabled=[], iters=iters, status=status)
            status, res, iters = r.step(op)
            if i < last:
                r.viol = []
            r.check(op, status, res, snap)
            if i < last and r.viol:
                # an earlier prefix misbehaves: this history should not have been extended
                return dict(viol=[], key=None, enabled=[], iters=iters, cut=True, status=status)
        if epilogue and not r.viol:
            # drain: whatever the clients still hold or can get is consumed, acked and the consumers
            # are finished - hidden client-side state (delivery tags, local queues, marks) that went
            # wrong during the deviated operation shows up as a message that cannot be settled
            if r.w.server is not None:
                for flag in ("stall_choice", "late_choice"):
                    if hasattr(r.w.server, flag):
                        setattr(r.w.server, flag, False)
            for mid, x_ in list(r.model.m.items()):
                if x_["place"] == "held" and not r.viol:
                    op2 = ["ack", mid]
                    st2, res2, _ = r.step(op2)
                    r.check(op2, st2, res2, {})
            for c in r.model.consumers:
                guard = 0
                while r.model.c[c]["started"] and CONSUMERS[c][0] == "NORMAL" and not r.viol and guard < 4:
                    guard += 1
                    op2 = ["consume", c]
                    st2, res2, _ = r.step(op2)
                    r.check(op2, st2, res2, {})
                    if st2 != "ok" or r.viol:
                        break
                    mid2 = res2[0].id_
                    op3 = ["ack", mid2]
                    st3, res3, _ = r.step(op3)
                    r.check(op3, st3, res3, {})
            for c in r.model.consumers:
                if r.model.c[c]["started"] and not r.viol:
                    op2 = ["finish", c]
                    st2, res2, _ = r.step(op2)
                    r.check(op2, st2, res2, {})
            if not r.viol:
                obs = r.w.observe()
                for mid in r.model.m:
                    if any(e["place"] == "held" for e in obs.get(mid, [])):
                        r.viol.append(("epilogue: left-in-flight", f"after draining and finishing every consumer {mid} is still marked in flight"))
            r.viol = [(sig if sig.startswith("epilogue") else "epilogue " + sig, what) for sig, what in r.viol]
        key = digest([r.model.key(), r.obs_key()])
        pts = [[j, lab, n] for j, (lab, n) in enumerate(r.x.chooser.points) if j >= n0] if choices_on_last else []
        return dict(viol=r.viol, key=key, enabled=r.model.enabled(), iters=iters, status=status, points_last=pts)
    finally:
        r.close()


# --------------------------------------------------------------------------------------
# BFS driver (level-synchronous, parallel)
# --------------------------------------------------------------------------------------
_TAKEN = [["enq", "m0", "now"], ["start", "cN0"], ["consume", "cN0"]]
ROOTS = [
    # cN0 has delivered m0 and the application has settled it: cN0 stays started and remembers the delivery
    _TAKEN + [["nack", "m0"]],
    _TAKEN + [["reject", "m0"]],
    _TAKEN + [["requeue", "m0", "new"]],
    _TAKEN + [["ack", "m0"]],
]
CONFIGS = {
    "quick": dict(nmsgs=2, depth={"mem": 5, "redis": 5, "amqp": 5}, cancel_depth=4,
                  consumers=["cN0", "cN1", "cD", "cX"], roots=ROOTS, root_depth=3),
    "thorough": dict(nmsgs=3, depth={"mem": 7, "redis": 6, "amqp": 6}, cancel_depth=5,
                     consumers=["cN0", "cN1", "cD", "cX"], roots=ROOTS, root_depth=4),
}
KINDS = ["mem", "redis", "amqp"]


def drive(tier, seed):
    import os
    kinds = KINDS[seed % len(KINDS):] + KINDS[: seed % len(KINDS)]
    if os.environ.get("MC_KINDS"):  # development aid: restrict the brokers
        kinds = [k for k in kinds if k in os.environ["MC_KINDS"].split(",")]
    if os.environ.get("MC_DEPTH"):
        for k in CONFIGS[tier]["depth"]:
            CONFIGS[tier]["depth"][k] = int(os.environ["MC_DEPTH"])
    return Acc.merge([search(k, tier).to_dict() for k in kinds])


def _expand(job):
    """Worker function for one transition."""
    if job.get("deviate"):
        return _deviate(job)
    r = run_history(job["kind"], job["nmsgs"], job["consumers"], job["hist"], job.get("cancel_at"),
                    deviations=job.get("dev"), choices_on_last=bool(job.get("dev")), epilogue=bool(job.get("dev")))
    r["hist"] = job["hist"]
    r["cancel_at"] = job.get("cancel_at")
    return r


def _deviate(job):
    """All single server-timing deviations during the last operation of a history."""
    base = run_history(job["kind"], job["nmsgs"], job["consumers"], job["hist"], choices_on_last=True)
    out = dict(viol=[], key=None, enabled=[], iters=0, hist=job["hist"], cancel_at=None, runs=1, devs=[])
    if base["viol"]:
        return out
    for j, lab, n in base.get("points_last", []):
        if n < 2 or not (lab.startswith("stall:") or lab.startswith("late:")):
            continue
        # the consumer's idle polling is not worth a deviation each
        if lab.startswith("stall:") and not any(t in lab for t in ("MULTI", "HMGET", "HGET")):
            continue
        dev = [[j, 1, lab]]
        r = run_history(job["kind"], job["nmsgs"], job["consumers"], job["hist"], deviations=dev, choices_on_last=True,
                        epilogue=True)
        out["runs"] += 1
        for sig, what in r["viol"]:
            out["viol"].append((sig + " +server-deviation", what + f" [deviation {dev}]"))
            out["devs"].append(dev)
    return out


def run_job(job):
    if "hist" in job:  # replay of one execution
        r = _expand(job)
        acc = Acc()
        acc.executions = 1
        sfx = " +server-deviation" if job.get("dev") else ""
        for sig, what in r["viol"]:
            acc.violations.append(dict(signature=f"{job['kind']} {sig}{sfx}", what=what + f" [history {job['hist']}]", job=job))
        return acc.to_dict()
    raise AssertionError("C01 jobs are single executions")


def search(kind, tier):
    cfg = CONFIGS[tier]
    acc = Acc()
    nm, cons, depth = cfg["nmsgs"], cfg["consumers"], cfg["depth"][kind]
    transitions = 0
    cancel_pairs = []  # (hist+op) for the cancellation sweep, one per distinct (state, op)
    maxdepth = 0

    def bfs(prefix, depth, with_cancel):
        """Level-synchronous search from the state reached by `prefix` (replayed on every execution)."""
        nonlocal transitions, maxdepth
        seen = set()
        root = run_history(kind, nm, cons, prefix)
        if root.get("cut") or root["viol"] or root["key"] is None:
            raise AssertionError(f"C01 start state {prefix} is not clean on {kind}: {root['viol']}")
        seen.add(root["key"])
        frontier = [(list(prefix), root["enabled"])]
        for d in range(1, depth + 1):
            todo = [dict(kind=kind, nmsgs=nm, consumers=cons, hist=h + [op]) for h, en in frontier for op in en]
            if not todo:
                break
            results = pmap(__name__, "_expand", todo)
            nxt = []
            for r in results:
                transitions += 1
                acc.executions += 1
                acc.handles += r["iters"]
                if r.get("cut"):
                    continue
                if r["viol"]:
                    for sig, what in r["viol"]:
                        acc.violations.append(dict(
                            signature=f"{kind} {sig}",
                            what=what + f" [history {r['hist']}]",
                            job=dict(kind=kind, nmsgs=nm, consumers=cons, hist=r["hist"]),
                        ))
                    continue  # a violating state is not expanded
                if with_cancel and d <= cfg["cancel_depth"] and r["hist"][-1][0] != "tick" and r["iters"] > 0 \
                        and r["hist"][-1][-1] != "dead":  # the composite start step is not an API call
                    cancel_pairs.append((r["hist"], r["iters"]))
                if r["key"] in seen:
                    continue
                seen.add(r["key"])
                nxt.append((r["hist"], r["enabled"]))
                maxdepth = max(maxdepth, len(r["hist"]))
                if len(acc.samples) < 3 and d >= 3:
                    acc.samples.append(dict(broker=kind, history=r["hist"]))
            frontier = nxt
        return seen

    seen = bfs([], depth, True)
    # non-initial start states: the canonical key holds what the broker and the reference model see, not what
    # a consumer object remembers privately (its last delivery, delivery tags); a prefix that leaves such a
    # memory behind is merged with the shorter history that reaches the same broker state without it.  Each of
    # these prefixes therefore gets a search of its own (own seen-set), a few steps deep.
    nroot = 0
    for prefix in cfg["roots"]:
        s2 = bfs(prefix, cfg["root_depth"], False)
        nroot += len(s2)
        seen |= {f"{json.dumps(prefix)}:{k}" for k in s2}
    acc.extra[f"{kind}_states_from_non_initial_roots"] = nroot
    # cancellation sweep: distinct (pre-state, op) pairs only
    seen_pairs = set()
    ctodo = []
    for hist, iters in cancel_pairs:
        # pre-state identity = key of the prefix; cheap proxy: the prefix itself was deduplicated
        # by BFS only if it was a frontier state, so use (prefix, op) and dedupe on op+prefix key
        pk = (json.dumps(hist[:-1]), json.dumps(hist[-1]))
        if pk in seen_pairs:
            continue
        seen_pairs.add(pk)
        # beyond the first iterations a blocked call only repeats its idle poll
        for k in range(0, min(iters, CANCEL_ITERS) + 1):
            ctodo.append(dict(kind=kind, nmsgs=nm, consumers=cons, hist=hist, cancel_at=k))
    cres = pmap(__name__, "_expand", ctodo) if ctodo else []
    ncancel = 0
    for r in cres:
        acc.executions += 1
        if r.get("status") == "cancelled":
            ncancel += 1
        for sig, what in r["viol"]:
            acc.violations.append(dict(
                signature=f"{kind} {sig}",
                what=what + f" [history {r['hist']}]",
                job=dict(kind=kind, nmsgs=nm, consumers=cons, hist=r["hist"], cancel_at=r["cancel_at"]),
            ))
    # server-timing deviations on the same distinct (state, op) pairs (Redis / RabbitMQ models)
    ndev = 0
    if kind != "mem":
        dtodo = [dict(kind=kind, nmsgs=nm, consumers=cons, hist=json.loads(a) + [json.loads(b)], deviate=True)
                 for a, b in sorted(seen_pairs) if json.loads(b)[0] in DEVIATE_OPS]
        for r in (pmap(__name__, "_expand", dtodo) if dtodo else []):
            acc.executions += r.get("runs", 1)
            ndev += r.get("runs", 1)
            seen_sig = set()
            for (sig, what), dev in zip(r["viol"], r.get("devs", [])):
                if sig in seen_sig:
                    continue
                seen_sig.add(sig)
                acc.violations.append(dict(
                    signature=f"{kind} {sig}",
                    what=what + f" [history {r['hist']}]",
                    job=dict(kind=kind, nmsgs=nm, consumers=cons, hist=r["hist"], dev=dev),
                ))
    acc.extra[f"{kind}_deviated_runs"] = ndev
    acc.outcomes = {f"{kind}:{k}" for k in seen}
    acc.choice_points = transitions
    acc.extra[f"{kind}_states"] = len(seen)
    acc.extra[f"{kind}_transitions"] = transitions
    acc.extra[f"{kind}_max_depth"] = maxdepth
    acc.extra[f"{kind}_cancellations"] = ncancel
    acc.extra[f"{kind}_cancel_pairs"] = len(seen_pairs)
    return acc


def coverage(acc, tier):
    return dict(
        depth_bound=CONFIGS[tier]["depth"],
        messages=CONFIGS[tier]["nmsgs"],
        cancel_depth=CONFIGS[tier]["cancel_depth"],
        non_initial_roots=CONFIGS[tier]["roots"],
        non_initial_root_depth=CONFIGS[tier]["root_depth"],
    )
