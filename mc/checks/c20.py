"""C20 - The health endpoint tells the truth and cannot be knocked over.

A worker with the health-check server runs on the virtual TCP model; client connections, a
consumer failure and the stop request are interleaved with it: a byte-string alphabet (valid,
every truncation, wrong path / method, binary, oversized, pipelined) x fragmentations x
simultaneous connections x settings, and sweeps of the failure / stop instant over every loop
iteration against open connections.  The TCP model itself is validated by replaying the alphabet
against a real HealthCheckServer over a loopback socket (identical bytes up to the Date header).
"""
import asyncio
import re
import socket

from repid import MessageDependency, Worker
from repid.converter import BasicConverter
from repid.health_check_server import HealthCheckServer, HealthCheckServerSettings

from ..env.vnet import VNet
from ..explore import Acc, digest
from ..harness import Exec
from ..vloop import NS, VLoop

ID = "C20"
LEVEL = "model_checking"
RULE = ("byte-string alphabet (valid request, every proper prefix, wrong path/method, binary, NUL, oversized, "
        "pipelined) x every 2-split (3-split thorough) x 1-3 simultaneous connections x 3 settings variants on a running "
        "worker; consumer failure and stop swept over every loop iteration with a connection opened before and a request "
        "sent before / after; conformance: the whole alphabet against a real server over loopback; distinct = distinct "
        "(case, replies)")
ASSUMPTIONS = [
    "virtual TCP: one data_received per client send, exception in data_received = handler report + forced close "
    "(validated against the real server over loopback for the whole alphabet)",
    "kernel behaviour (backlog overflow, half-open connections) not covered",
    "in-memory broker; a consumer failure is a ConnectionError raised by consume()",
]

SETTINGS = [dict(), dict(address="127.0.0.1", port=11111, endpoint_name="/health"),
            dict(address="::", port=9, endpoint_name="/healthz/")]
HORIZON = 0.08


def valid(endpoint="/healthz"):
    return f"GET {endpoint} HTTP/1.1\r\nHost: localhost\r\nAccept: */*\r\n\r\n".encode()


def alphabet(endpoint="/healthz"):
    v = valid(endpoint)
    out = [("valid", [v])]
    for i in range(0, len(v)):
        out.append((f"prefix{i}", [v[:i]]))
    out += [
        ("wrong-path", [v.replace(endpoint.encode(), b"/other")]),
        ("path-prefix", [v.replace(endpoint.encode(), endpoint.encode() + b"x")]),
        ("path-query", [v.replace(endpoint.encode(), endpoint.encode() + b"?a=1")]),
        ("wrong-method", [v.replace(b"GET", b"POST")]),
        ("lower-method", [v.replace(b"GET", b"get")]),
        ("head-method", [v.replace(b"GET", b"HEAD")]),
        ("no-version", [f"GET {endpoint}\r\n\r\n".encode()]),
        ("bare-lf", [v.replace(b"\r\n", b"\n")]),
        ("binary", [b"\xff\xfe\x00\x01" * 8 + b"\r\n\r\n"]),
        ("nul", [b"\x00" * 16]),
        ("only-crlf", [b"\r\n\r\n"]),
        ("huge-path", [b"GET /" + b"a" * (1 << 20) + b" HTTP/1.1\r\n\r\n"]),
        ("pipelined", [v + v]),
        ("two-sends", [v, v]),
        ("valid-then-garbage", [v, b"\xff\xff"]),
        ("utf8-path", [f"GET /héalth HTTP/1.1\r\n\r\n".encode()]),
    ]
    return out


def splits2(endpoint="/healthz"):
    v = valid(endpoint)
    return [(f"split{i}", [v[:i], v[i:]]) for i in range(1, len(v))]


def splits3(endpoint="/healthz"):
    v = valid(endpoint)
    n = len(v)
    return [(f"split{i}-{j}", [v[:i], v[i:j], v[j:]]) for i in range(1, n) for j in range(i + 1, n, 3)]


def whole_request(packet: bytes):
    """(method, path) if the packet is a complete, decodable request head, else None."""
    try:
        text = packet.decode()
    except UnicodeDecodeError:
        return None
    if "\r\n\r\n" not in text or len(packet) > 65536:  # larger sends do not arrive in one read
        return None
    line = text.split("\r\n\r\n", 1)[0].split("\r\n", 1)[0]
    parts = line.split(" ", 2)
    if len(parts) != 3:
        return None
    return parts[0], parts[1]


def status_of(reply: bytes):
    m = re.match(rb"HTTP/1\.1 (\d{3}) ", reply)
    return int(m.group(1)) if m else None


def mask(reply: bytes) -> bytes:
    return re.sub(rb"Date: [^\r]*\r\n", b"Date: X\r\n", reply)


# --------------------------------------------------------------------------------------
# virtual runs
# --------------------------------------------------------------------------------------
def run_virtual(case):
    """case: settings index, conns (list of packet lists), event (None | fault | stop), k (iteration),
    timing ('before' | 'after'): request sent before/after the event."""
    x = Exec("mem")
    w = x.world
    loop = x.loop
    net = VNet(loop)
    st = SETTINGS[case.get("settings", 0)]
    settings = HealthCheckServerSettings(**st)
    port, endpoint = settings.port, settings.endpoint_name
    viol = []
    ran = []
    try:
        worker = Worker(_connection=w.conn, graceful_shutdown_time=0.05, run_health_check_server=True,
                        health_check_server_settings=settings, handle_signals=[])

        async def job(m: MessageDependency):
            await asyncio.sleep(0.003)
            ran.append(m.key.id_)

        for q in ("q1", "q2"):
            worker.actor(job, name=f"job_{q}", queue=q, converter=BasicConverter)
        fault = asyncio.Event()
        orig_get = w.broker.get_consumer

        def get_consumer(queue_name, *a, **kw):
            c = orig_get(queue_name, *a, **kw)
            if queue_name == "q1":
                inner = c.consume.fn

                async def faulty():
                    t = asyncio.ensure_future(inner())
                    f = asyncio.ensure_future(fault.wait())
                    done, _ = await asyncio.wait({t, f}, return_when=asyncio.FIRST_COMPLETED)
                    if t in done:
                        f.cancel()
                        return t.result()
                    t.cancel()
                    raise ConnectionError("consumer lost its connection")

                c.consume.fn = faulty
            return c

        w.broker.get_consumer = get_consumer

        async def setup():
            await w.connect()
            for q in ("q1", "q2"):
                await w.broker.queue_declare(q)
            for i in range(2):
                await w.broker.enqueue(w.key(f"a{i}", "job_q2", "q2"), "", w.params())

        x.run(setup())
        if net.is_open(port):
            viol.append(("port", "port open before the worker runs"))
        runners = {}
        worker._register_signals = lambda lp, runner: runners.__setitem__(0, runner)
        x.mark()
        run_task = asyncio.ensure_future(worker.run(), loop=loop)
        open_log = []
        loop.select_hooks.append(lambda lp: open_log.append((x.rel_iter, net.is_open(port), run_task.done())))
        conns = []
        replies = []
        event_iter = case.get("k")
        healthy_at_send = []

        def current_expected():
            return 503 if fault.is_set() and unhealthy_seen() else (503 if worker.health_check_server.health_status.value == 503 else 200)

        def unhealthy_seen():
            return worker.health_check_server.health_status.value == 503

        def open_conns():
            for packets in case["conns"]:
                c = net.connect(port)
                conns.append((c, packets))

        def send_all():
            for c, packets in conns:
                if c is None:
                    continue
                healthy_at_send.append(worker.health_check_server.health_status.value)
                for i, p in enumerate(packets):
                    # consecutive packets arrive in consecutive iterations
                    def snd(c=c, p=p):
                        c.send(p)
                    if i == 0:
                        snd()
                    else:
                        x.at_iteration(x.rel_iter + 2 * i, snd)

        def do_event():
            if case.get("event") == "fault":
                fault.set()
            elif case.get("event") == "stop":
                if 0 in runners:
                    runners[0].sync_stop_wait_and_cancel(0.0)

        t_open = 12  # iterations after start at which clients connect
        x.at_iteration(t_open, open_conns)
        if case.get("event"):
            x.at_iteration(event_iter, do_event)
            if case["timing"] == "before":
                x.at_iteration(max(t_open + 1, event_iter - 1) if event_iter > t_open else t_open + 1, send_all)
            else:
                x.at_iteration(max(event_iter + case.get("lag", 3), t_open + 1), send_all)
        else:
            x.at_iteration(t_open + 2, send_all)
        loop.run_for(HORIZON)
        # the final probe: the server still accepts and tells the truth
        probe = None
        status_now = worker.health_check_server.health_status.value
        if not run_task.done():
            probe = net.connect(port)
            if probe is None:
                viol.append(("knocked-over", "the listener is gone while the worker still runs"))
            else:
                probe.send(valid(endpoint))
                loop.run_for(0.005)
                got = status_of(probe.received)
                if got != status_now:
                    viol.append(("probe", f"after the traffic a valid GET was answered {got} ({probe.received[:40]!r}), health status is {status_now}"))
        if 0 in runners and not run_task.done():
            runners[0].sync_stop_wait_and_cancel(0.0)
        loop.run_for(0.5)
        x.settle(0.1)
        if not run_task.done():
            viol.append(("worker-stuck", "Worker.run() did not return after the stop"))
        elif run_task.exception() is not None:
            viol.append(("worker-died", f"Worker.run() raised {run_task.exception()!r}"))
        if net.is_open(port) or net.connect(port) is not None:
            viol.append(("port", "port still open after Worker.run() returned"))
        # port open exactly while running
        first_open = next((i for i, o, d in open_log if o), None)
        last_open = max((i for i, o, d in open_log if o), default=None)
        done_at = next((i for i, o, d in open_log if d), None)
        if first_open is None or first_open > 8:
            viol.append(("port", f"port opened only at iteration {first_open} of the run"))
        if done_at is not None and last_open is not None and last_open >= done_at:
            viol.append(("port", f"port open at iteration {last_open}, run() finished at {done_at}"))
        gaps = [i for i, o, d in open_log if not o and first_open is not None and i > first_open and
                (done_at is None or i < done_at - 40) and not d and
                not (case.get("event") == "stop" and i >= (event_iter or 0))]
        if gaps and last_open is not None and any(g < last_open for g in gaps):
            viol.append(("port", f"port closed in the middle of the run at iterations {gaps[:3]}"))
        # replies
        for idx, (c, packets) in enumerate(conns):
            if c is None:
                replies.append(None)
                continue
            replies.append(bytes(c.received))
            first = whole_request(packets[0]) if packets else None
            if first is not None and c.accepted:
                want_status = 404
                if first == ("GET", endpoint):
                    want_status = None  # 200 or 503 depending on the moment: judged below
                got = status_of(c.received)
                if got is None and not (case.get("event") == "stop"):
                    viol.append(("no-reply", f"connection {idx}: a complete request {packets[0][:30]!r} got no reply ({c.received[:30]!r})"))
                elif want_status is not None and got is not None and got != want_status:
                    viol.append(("wrong-status", f"connection {idx}: {first} answered {got}, expected 404"))
                elif want_status is None and got is not None:
                    sent_status = healthy_at_send[idx] if idx < len(healthy_at_send) else None
                    if got not in (200, 503):
                        viol.append(("wrong-status", f"connection {idx}: GET {endpoint} answered {got}"))
                    elif sent_status == 503 and got != 503:
                        # the status only ever goes from healthy to unhealthy: a request sent after the
                        # flip must see it (one sent just before may legitimately be answered either way)
                        viol.append(("stale-status", f"connection {idx}: GET {endpoint} sent while the health status was {sent_status} "
                                                     f"was answered {got}"))
        jobs_done = sorted(ran)
        summary = dict(replies=[None if r is None else mask(r)[:60].decode("latin1") for r in replies],
                       jobs=jobs_done, exc=len(loop.exc_log), status=status_now)
        handles = loop.handles
    finally:
        x.close()
    return handles, viol, summary


def twin_jobs():
    _, _, s = run_virtual(dict(conns=[], settings=0))
    return s["jobs"]


# --------------------------------------------------------------------------------------
# conformance of the TCP model: real server on a real loop over loopback
# --------------------------------------------------------------------------------------
def real_reply(packets, unhealthy=False):
    async def main():
        srv = HealthCheckServer(HealthCheckServerSettings(address="127.0.0.1", port=0))
        if unhealthy:
            srv.health_status = 503
        await srv.start()
        port = srv._server.sockets[0].getsockname()[1]
        loop = asyncio.get_running_loop()
        errs = []
        loop.set_exception_handler(lambda lp, ctx: errs.append(type(ctx.get("exception")).__name__))
        reader, writer = await asyncio.open_connection("127.0.0.1", port)
        sock = writer.get_extra_info("socket")
        sock.setsockopt(socket.IPPROTO_TCP, socket.TCP_NODELAY, 1)
        data = b""
        try:
            for p in packets:
                if p:
                    writer.write(p)
                    await writer.drain()
                await asyncio.sleep(0.03)  # keep the packets apart
            if not packets or not any(packets):
                writer.close()
            try:
                data = await asyncio.wait_for(reader.read(-1), 0.6)
                closed = True
            except asyncio.TimeoutError:
                closed = False
        except (ConnectionResetError, BrokenPipeError):
            closed = True
        writer.close()
        await srv.stop()
        return data, closed, errs

    loop = asyncio.new_event_loop()
    try:
        return loop.run_until_complete(main())
    finally:
        loop.close()


def virtual_reply(packets, unhealthy=False):
    loop = VLoop()
    with loop:
        net = VNet(loop)

        async def main():
            srv = HealthCheckServer(HealthCheckServerSettings(address="127.0.0.1", port=8080))
            if unhealthy:
                srv.health_status = 503
            await srv.start()
            c = net.connect(8080)
            await asyncio.sleep(0)
            for p in packets:
                if p:
                    c.send(p)
                await asyncio.sleep(0.03)
            if not packets or not any(packets):
                c.close()
            await asyncio.sleep(0.6)
            closed = c.closed_by_server
            await srv.stop()
            return bytes(c.received), closed, [type(e.get("exception")).__name__ for e in loop.exc_log]

        fut = loop.run_until(main())
        loop.shutdown()
    loop.close()
    return fut.result()


def run_conformance(entries):
    viol = []
    n = 0
    for name, packets, unhealthy in entries:
        n += 1
        r = real_reply(packets, unhealthy)
        v = virtual_reply(packets, unhealthy)
        if (mask(r[0]), r[1], bool(r[2])) != (mask(v[0]), v[1], bool(v[2])):
            viol.append(("conformance", f"{name}: real server over loopback -> {mask(r[0])[:50]!r} closed={r[1]} errors={r[2]}; "
                                        f"virtual TCP -> {mask(v[0])[:50]!r} closed={v[1]} errors={v[2]}"))
    return viol, n


# --------------------------------------------------------------------------------------
def jobs(tier):
    out = []
    cases = []
    for si in range(len(SETTINGS)):
        ep = HealthCheckServerSettings(**SETTINGS[si]).endpoint_name
        entries = alphabet(ep) + (splits2(ep) if si == 0 or tier == "thorough" else splits2(ep)[::5])
        if tier == "thorough" and si == 0:
            entries += splits3(ep)
        for name, packets in entries:
            cases.append(dict(name=name, conns=[[p.decode("latin1") for p in packets]], settings=si))
        # simultaneous connections
        v = valid(ep).decode("latin1")
        for combo in ([v, v], [v, "\xff\xfe", v], ["GET /nope HTTP/1.1\r\n\r\n", v, v[:5]], [v[:10], v[:10], v]):
            cases.append(dict(name="multi", conns=[[c] for c in combo], settings=si))
    n = 40
    for i in range(0, len(cases), n):
        out.append(dict(virtual=cases[i:i + n]))
    # sweeps: consumer failure / stop at every iteration, request before / after
    base_iters = 160 if tier == "quick" else 260
    v = valid().decode("latin1")
    sweep = []
    for ev in ("fault", "stop"):
        for timing in ("before", "after"):
            for k in range(13, base_iters):
                sweep.append(dict(name=f"{ev}-{timing}", conns=[[v]], settings=0, event=ev, k=k, timing=timing, lag=3))
            if timing == "after":
                for lag in (1, 2, 5, 9):
                    for k in range(13, base_iters, 3):
                        sweep.append(dict(name=f"{ev}-{timing}", conns=[[v]], settings=0, event=ev, k=k, timing=timing, lag=lag))
    for i in range(0, len(sweep), 60):
        out.append(dict(virtual=sweep[i:i + 60]))
    # conformance
    conf = [(n_, [p.decode("latin1") for p in pk], False) for n_, pk in alphabet()] + \
           [(n_, [p.decode("latin1") for p in pk], False) for n_, pk in splits2()[:: (3 if tier == "quick" else 1)]] + \
           [("valid-unhealthy", [valid().decode("latin1")], True), ("wrong-path-unhealthy", ["GET /x HTTP/1.1\r\n\r\n"], True)]
    for i in range(0, len(conf), 12):
        out.append(dict(conformance=conf[i:i + 12]))
    return out


def run_job(job):
    acc = Acc()
    twin = None
    for c in job.get("virtual", []):
        case = dict(c, conns=[[p.encode("latin1") for p in pk] for pk in c["conns"]])
        handles, viol, summary = run_virtual(case)
        if twin is None:
            twin = twin_jobs()
        if summary.get("jobs") != twin and c.get("event") is None:
            viol.append(("jobs-disturbed", f"jobs processed with traffic {summary.get('jobs')}, without {twin}"))
        acc.executions += 1
        acc.handles += handles
        acc.choice_points += sum(len(pk) for pk in c["conns"]) + (1 if c.get("event") else 0)
        acc.outcomes.add(digest([c["name"], c.get("settings"), c.get("event"), c.get("timing"), summary["replies"], summary["status"]]))
        acc.phases[c.get("event") or ("multi" if len(c["conns"]) > 1 else "single")] += 1
        seen = set()
        for sig, what in viol:
            if sig in seen:
                continue
            seen.add(sig)
            acc.violations.append(dict(signature=f"{sig}" + (f" {c['event']}-{c['timing']}" if c.get("event") else ""),
                                       what=what + f" [case {c['name']} settings {c.get('settings')} event {c.get('event')} at {c.get('k')}]",
                                       job=dict(virtual=[c]), detail=summary))
        if len(acc.samples) < 2:
            acc.samples.append(dict(case=c["name"], packets=[[p[:40] for p in pk] for pk in c["conns"]], observed=summary))
    if job.get("conformance"):
        entries = [(n_, [p.encode("latin1") for p in pk], u) for n_, pk, u in job["conformance"]]
        viol, n = run_conformance(entries)
        acc.executions += 2 * n
        acc.phases["conformance"] += n
        acc.extra["conformance_requests"] += n
        for sig, what in viol:
            acc.violations.append(dict(signature="harness-conformance", what=what, job=dict(conformance=job["conformance"])))
    return acc.to_dict()
