"""C17 - Middleware only observes.

Every wrapped operation is invoked directly (positional / keyword / mixed arguments) and inside a
full job lifecycle, under every subscriber set; the ordered signal log is compared with the
operations actually made, and results / broker calls / final state with the subscriber-free twin.
"""
import asyncio
import inspect
from datetime import timedelta

from repid import Job, MessageDependency, Worker
from repid.converter import BasicConverter
from repid.data._buckets import ArgsBucket
from repid.message import MessageCategory
from repid.middlewares.consts import WRAPPED

from ..explore import Acc, digest
from ..harness import SIGTERM, Exec
from ..scenario import fixed_policy
from ..vloop import NS

ID = "C17"
LEVEL = "model_checking"
RULE = ("13 wrapped operations x 3 argument styles x 7 subscriber sets x {direct script, job lifecycle with one / two "
        "connections} x broker; distinct = distinct (scenario, subscriber set, signal log)")
ASSUMPTIONS = ["Redis / RabbitMQ replaced by in-process models (thorough tier)",
               "sync subscribers run through the inlined executor"]

PARAMS = {
    "consume": [], "enqueue": ["key", "payload", "params"], "queue_declare": ["queue_name"],
    "queue_flush": ["queue_name"], "queue_delete": ["queue_name"], "ack": ["key"], "nack": ["key"],
    "reject": ["key"], "requeue": ["key", "payload", "params"], "get_bucket": ["id_"],
    "store_bucket": ["id_", "payload"], "delete_bucket": ["id_"],
    "actor_run": ["actor", "key", "parameters", "payload", "connection"],
}
SUBSETS = ["none", "async", "sync", "raising", "slow", "subset", "two"]


def _val(v):
    if v is None or isinstance(v, (str, int, float, bool)):
        return v
    if hasattr(v, "id_") and hasattr(v, "topic"):
        return f"key:{v.id_}"
    if hasattr(v, "retries"):
        return f"params:tried={v.retries.already_tried}"
    if hasattr(v, "message_broker"):
        return "connection"
    if isinstance(v, tuple) and len(v) == 3 and hasattr(v[0], "id_"):
        return f"msg:{v[0].id_}"
    if hasattr(v, "data") and hasattr(v, "timestamp"):
        return f"bucket:{v.data}"
    if hasattr(v, "fn") and hasattr(v, "name"):
        return f"actor:{v.name}"
    if hasattr(v, "success") and hasattr(v, "reporting_done"):
        return f"actor_result:{v.success}"
    return type(v).__name__


def make_subscribers(kind, log, tag):
    """Functions named before_<op>/after_<op> for all 13 operations."""
    subs = []
    if kind == "none":
        return subs
    for op in WRAPPED:
        for phase in ("before", "after"):
            name = f"{phase}_{op}"
            args = list(PARAMS[op]) + (["result"] if phase == "after" else [])
            if kind == "subset":
                args = args[-1:]  # only the last argument (the result for 'after')
            sig = ", ".join(args)
            is_async = kind in ("async", "slow", "two", "subset", "raising") and not (kind == "raising" and phase == "after")
            body_rec = f"    log.append((tag, {name!r}, {{{', '.join(f'{a!r}: _val({a})' for a in args)}}}))\n"
            src = ("async " if is_async else "") + f"def {name}({sig}):\n" + body_rec
            if kind == "raising":
                src += "    raise RuntimeError('subscriber failed')\n"
            if kind == "slow":
                src += "    await asyncio.sleep(0.5)\n"
            ns = dict(log=log, tag=tag, _val=_val, asyncio=asyncio)
            exec(src, ns)  # noqa: S102 - harness-generated subscriber with the exact signature
            subs.append(ns[name])
            if kind == "two":
                ns2 = dict(log=log, tag=tag + "#2", _val=_val, asyncio=asyncio)
                exec(src.replace("async def", "def", 1) if is_async else src, ns2)  # noqa: S102
                subs.append(ns2[name])
    return subs


def direct_script(kind, subset):
    """Calls every broker / bucket operation directly; returns observations."""
    x = Exec(kind, buckets="both")
    w = x.world
    log = []
    out = dict(results=[], signals=log, expected=[])
    try:
        for fn in make_subscribers(subset, log, "A"):
            w.conn.middleware.add_subscriber(fn)
        b = w.broker
        ab = w.conn.args_bucket_broker

        async def call(obj, op, style, *args):
            names = PARAMS[op]
            if style == "pos":
                coro = getattr(obj, op)(*args)
            elif style == "kw":
                coro = getattr(obj, op)(**dict(zip(names, args)))
            else:
                coro = getattr(obj, op)(args[0], **dict(zip(names[1:], args[1:]))) if args else getattr(obj, op)()
            kwargs = {n: _val(a) for n, a in zip(names, args)}
            out["expected"].append((f"before_{op}", kwargs))
            try:
                r = await coro
            except Exception as e:  # noqa: BLE001
                out["results"].append((op, "exc", type(e).__name__))
                return None
            out["expected"].append((f"after_{op}", dict(kwargs, result=_val(r))))
            out["results"].append((op, "ok", _val(r)))
            return r

        async def main():
            await w.connect()
            await call(b, "queue_declare", "pos", "q")
            await call(b, "queue_declare", "kw", "q2")
            k = [w.key(f"m{i}", "job", "q", 9) for i in range(3)]
            p = w.params(retries=2)
            await call(b, "enqueue", "pos", k[0], "p0", p)
            await call(b, "enqueue", "kw", k[1], "p1", w.params())
            await call(b, "enqueue", "mixed", k[2], "p2", w.params())
            c = b.get_consumer("q", None, None, MessageCategory.NORMAL)
            await c.start()
            for _ in range(3):
                await call(c, "consume", "pos")
            # operations that fail or get cancelled must not silence the ones that follow
            await call(b, "enqueue", "pos", w.key("lost", "job", "undeclared", 9), "x", w.params())
            out["expected"].append(("before_consume", {}))
            try:
                await asyncio.wait_for(c.consume(), 0.05)  # nothing left: cancelled by the timeout
                out["results"].append(("consume", "ok", "unexpected"))
            except asyncio.TimeoutError:
                out["results"].append(("consume", "cancelled", None))
            await call(b, "ack", "pos", k[0])
            await call(b, "nack", "kw", k[1])
            await call(b, "requeue", "mixed", k[2], "p2b", w.params(tried=1))
            await call(c, "consume", "pos")
            await call(b, "reject", "pos", k[2])
            await c.finish()
            bucket = ArgsBucket(data="d")
            await call(ab, "store_bucket", "pos", "b1", bucket)
            await call(ab, "get_bucket", "kw", "b1")
            await call(ab, "get_bucket", "pos", "nope")
            await call(ab, "delete_bucket", "mixed", "b1")
            await call(b, "queue_flush", "pos", "q")
            await call(b, "queue_delete", "kw", "q2")

        st, v = x.run(main(), max_iters=300_000)
        out["status"] = st if st == "ok" else f"{st}: {v!r}"
        x.settle(0.1)
        out["calls"] = [(r[2], r[3], r[7]) for r in x.log if r[1] == "call"]
        out["obs"] = {k_: sorted(e["place"] for e in v_) for k_, v_ in w.observe().items() if not k_.startswith("__")}
        out["handles"] = x.loop.handles
    finally:
        x.close()
    return out


def lifecycle(kind, subset, two_conns):
    """A job through a worker (args bucket, actor, result) on connection A; optionally a second
    connection B with its own worker and subscribers alive in the same process."""
    x = Exec(kind, buckets="both")
    w = x.world
    logs = {"A": [], "B": []}
    out = dict(signals=logs, runs=[])
    try:
        from ..world import World
        conns = {"A": w.conn}
        worlds = {"A": w}
        if two_conns:
            wb = World(kind, x.loop, buckets="both", chooser=x.chooser)
            conns["B"] = wb.conn
            worlds["B"] = wb
            World._set_magic(w.conn)
        for name, conn in conns.items():
            for fn in make_subscribers(subset, logs[name], name):
                conn.middleware.add_subscriber(fn)

        def make_worker(name):
            worker = Worker(_connection=conns[name], graceful_shutdown_time=0.2, handle_signals=[])

            async def job(a: int, m: MessageDependency):
                out["runs"].append((name, m.key.id_, a, m.parameters.retries.already_tried))
                await asyncio.sleep(0.002)
                if a == 2 and m.parameters.retries.already_tried == 0:
                    raise ValueError("first attempt of job 2 fails")
                return a * 10

            worker.actor(job, name="job", queue="q", converter=BasicConverter, retry_policy=fixed_policy(0.0))
            return worker

        runners = {}

        async def run(name, worker):
            worker._register_signals = lambda lp, runner: runners.__setitem__(name, runner)
            return await worker.run()

        async def main():
            jobs = {}
            # workers are created A first, B last: the latest runner owns class-level state
            workers = {n: make_worker(n) for n in conns}
            for n, conn in conns.items():
                await conn.connect()
            tasks = [asyncio.ensure_future(run(n, wk)) for n, wk in workers.items()]
            await asyncio.sleep(0.01)
            for n, conn in conns.items():
                for a in (1, 2):
                    j = Job("job", queue="q", id_=f"{n}{a}", args=dict(a=a), retries=1, _connection=conn,
                            timeout=timedelta(seconds=5))
                    jobs[(n, a)] = j
                    await j.enqueue()
            await asyncio.sleep(60.0 if subset == "slow" else 1.6)  # slow subscribers may only shift times
            for r in runners.values():
                r.sync_stop_wait_and_cancel(0.0)
            await asyncio.gather(*tasks)
            res = {}
            for (n, a), j in jobs.items():
                b = await j.result
                res[f"{n}{a}"] = None if b is None else (b.success, b.data)
            return res

        st, v = x.run(main(), max_iters=2_000_000)
        out["status"] = st if st == "ok" else f"{st}: {v!r}"
        out["results"] = v if st == "ok" else None
        x.settle(0.1)
        out["calls"] = {n: [(r[2], r[3], r[7]) for r in wd.log if r[1] == "call"] for n, wd in worlds.items()}
        out["obs"] = {n: {k_: sorted(e["place"] for e in v_) for k_, v_ in wd.observe().items() if not k_.startswith("__")}
                      for n, wd in worlds.items()}
        out["handles"] = x.loop.handles
    finally:
        x.close()
    return out


def judge_direct(o, twin, subset):
    viol = []
    if o["status"] != "ok":
        viol.append(("script-failed", f"direct script ended with {o['status']}"))
    if subset != "none":
        got = [(s[1], s[2]) for s in o["signals"] if s[0] == "A"]
        want = []
        for name, kw in o["expected"]:
            if subset == "subset":
                keys = list(kw)
                kw = {keys[-1]: kw[keys[-1]]} if keys else {}
            want.append((name, kw))
        if got != want and subset == "slow":
            # slow subscribers shift times: a prefetching consumer may take a rejected message
            # again before it is finished and then gives it back itself (its own reject)
            it = iter(got)
            extras_ok = all(any(g == w_ for g in it) for w_ in want)
            extra = [g for g in got if g not in want]
            if extras_ok and all(g[0] in ("before_reject", "after_reject") for g in extra):
                got = want
        if got != want:
            # first difference
            i = next((k for k in range(min(len(got), len(want))) if got[k] != want[k]), min(len(got), len(want)))
            viol.append(("signals", f"signal log differs from the operations made at position {i}: got "
                                    f"{got[i] if i < len(got) else None}, expected {want[i] if i < len(want) else None} "
                                    f"({len(got)} signals, {len(want)} expected)"))
        if subset == "two":
            second = [(s[1], s[2]) for s in o["signals"] if s[0] == "A#2"]
            if second != want:
                viol.append(("signals", "the second subscriber of each signal did not receive the same signals"))
    for k in ("results", "calls", "obs"):
        a, b = o[k], twin[k]
        if k == "calls" and subset == "slow":
            a = [c for c in a if c[0] != "reject"]
            b = [c for c in b if c[0] != "reject"]
        if a != b:
            viol.append(("not-only-observing", f"with subscriber set '{subset}' the {k} differ from the subscriber-free run"))
    return viol


def judge_lifecycle(o, twin, subset, two):
    viol = []
    if o["status"] != "ok":
        viol.append(("script-failed", f"lifecycle ended with {o['status']}"))
        return viol
    for k in ("results", "obs"):
        if o[k] != twin[k]:
            viol.append(("not-only-observing", f"with subscriber set '{subset}' the {k} differ from the subscriber-free run: {o[k]} vs {twin[k]}"))
    if sorted(o["runs"]) != sorted(twin["runs"]):
        viol.append(("not-only-observing", f"actor invocations differ: {sorted(o['runs'])} vs {sorted(twin['runs'])}"))
    for n in o["calls"]:
        if sorted(o["calls"][n]) != sorted(twin["calls"][n]):
            viol.append(("not-only-observing", f"broker calls of connection {n} differ from the subscriber-free run"))
    if subset in ("async", "sync", "two"):
        for n, lg in o["signals"].items():
            if not two and n == "B":
                continue
            sig = [(s[1], s[2]) for s in lg if s[0] == n]
            # every signal must concern this connection's own messages
            foreign = [s for s in sig if any(isinstance(v, str) and v[:4] in ("key:", "msg:") and v.split(":")[1][:1] != n
                                             for v in s[1].values())]
            if foreign:
                viol.append(("wrong-connection", f"subscribers of connection {n} received signals about another connection's messages: {foreign[:2]}"))
            # pairing: per operation name, befores and afters alternate correctly in count
            for op in WRAPPED:
                nb = sum(1 for s in sig if s[0] == f"before_{op}")
                na = sum(1 for s in sig if s[0] == f"after_{op}")
                if na > nb or (op != "consume" and nb - na > 0):
                    viol.append(("pairing", f"connection {n}: {nb} before_{op} but {na} after_{op}"))
            # top-level broker calls seen by the spy == before signals; nested ones emit nothing
            for op in ("enqueue", "ack", "nack", "reject", "requeue"):
                top = sum(1 for c in o["calls"][n] if c[0] == op and c[2] == 0)
                nb = sum(1 for s in sig if s[0] == f"before_{op}")
                if top != nb:
                    viol.append(("count", f"connection {n}: {top} top-level {op} calls but {nb} before_{op} signals"))
            runs_n = [r for r in o["runs"] if r[0] == n]
            nb = sum(1 for s in sig if s[0] == "before_actor_run")
            if nb != len(runs_n):
                viol.append(("count", f"connection {n}: {len(runs_n)} actor runs but {nb} before_actor_run signals"))
    return viol


def cases(tier):
    kinds = ["mem", "redis", "amqp"]
    out = []
    for kind in kinds:
        for sub in SUBSETS:
            out.append(dict(kind=kind, scenario="direct", sub=sub))
            out.append(dict(kind=kind, scenario="lifecycle", sub=sub, two=False))
            out.append(dict(kind=kind, scenario="lifecycle", sub=sub, two=True))
    return out


def jobs(tier):
    return [dict(cases=[c]) for c in cases(tier)]


def run_job(job):
    acc = Acc()
    for case in job["cases"]:
        if case["scenario"] == "direct":
            twin = direct_script(case["kind"], "none")
            o = twin if case["sub"] == "none" else direct_script(case["kind"], case["sub"])
            viol = judge_direct(o, twin, case["sub"])
            summary = dict(signals=len(o["signals"]), results=o["results"][:4])
            nsig = len(o["signals"])
        else:
            twin = lifecycle(case["kind"], "none", case["two"])
            o = twin if case["sub"] == "none" else lifecycle(case["kind"], case["sub"], case["two"])
            viol = judge_lifecycle(o, twin, case["sub"], case["two"])
            nsig = sum(len(v) for v in o["signals"].values())
            summary = dict(signals=nsig, results=o.get("results"), runs=sorted(o["runs"]))
        acc.executions += 2
        acc.handles += o.get("handles", 0)
        acc.choice_points += nsig
        acc.outcomes.add(digest([case, summary]))
        acc.phases[case["scenario"]] += 1
        for sig, what in viol:
            acc.violations.append(dict(
                signature=f"{case['kind']} {case['scenario']}{'-two' if case.get('two') else ''} {sig}",
                what=what + f" [case {case}]",
                job=dict(cases=[case]),
                detail=summary,
            ))
        if len(acc.samples) < 2 and case["sub"] != "none":
            acc.samples.append(dict(case=case, first_signals=[list(s) for s in (o["signals"] if isinstance(o["signals"], list) else o["signals"]["A"])[:6]]))
    return acc.to_dict()
