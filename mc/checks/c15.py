"""C15 - Within a queue and priority, delivery is first-in first-out.

Exhaustive words over {enqueue own / foreign topic, consume, consume by the foreign topic's
consumer, reject oldest held, reject newest held} on the real brokers: all words up to a length
bound, and all short words appended to backlogs of 1..13 messages (straddling Redis' 10-name
fetch window).  Every consume() is compared with a FIFO reference model.
"""
import asyncio
import itertools

from repid.message import MessageCategory

from ..explore import Acc, digest
from ..harness import Exec
from ..vloop import CLOCK, NS

ID = "C15"
LEVEL = "model_checking"
RULE = ("all words over the 6-letter alphabet up to length 6 (7 thorough) from the empty queue, plus all words up to "
        "length 4 (5 thorough) appended to backlogs of k messages, k in 1..13, in three topic patterns; every word is "
        "executed on the real broker; distinct = distinct (word, returned sequence)")
ASSUMPTIONS = [
    "Redis / RabbitMQ replaced by in-process models",
    "messages that were enqueued delayed are outside the order oracle (rank undefined by the statement)",
    "a consume() is given 1.5 virtual seconds to return",
]

LETTERS = ["eo", "ef", "co", "cf", "ro", "rn"]
PATTERNS = {"own": lambda i: "o", "alt": lambda i: "of"[i % 2], "foreign-first": lambda i: "f" if i < 3 else "o"}
# j foreign messages in front of the own ones: own messages at every position around the
# multiples of the 10-name fetch window
for _j in (8, 9, 10, 11, 18, 19, 20, 21):
    PATTERNS[f"f{_j}"] = (lambda j: (lambda i: "f" if i < j else "o"))(_j)
CONSUME_BUDGET = 1.5
# priority of the i-th enqueued message; "redis order" = which priority Redis looks at first
PRIOS = {None: lambda i: 9, "p2": lambda i: (5, 9)[i % 2], "p3": lambda i: (0, 9, 5)[i % 3], "p3r": lambda i: (9, 5, 0, 0, 5, 9)[i % 6]}
REDIS_ORDERS = {"high-first": 0.0, "medium-first": 0.8, "low-first": 0.99}


class Fifo:
    """Reference model.  Each waiting message: (id, topic, orig seq, returned seq or None)."""

    def __init__(self):
        self.seq = 0
        self.waiting = []
        self.held = {"o": [], "f": []}  # held by the application via consumer o / f, in delivery order
        self.n = 0

    def enq(self, topic):
        mid = f"m{self.n}"
        self.n += 1
        self.seq += 1
        self.waiting.append(dict(id=mid, topic=topic, orig=self.seq, ret=None, prio=self.prio_of(self.n - 1)))
        return mid

    prio_of = staticmethod(lambda i: 9)

    def prio(self, mid):
        return next(m["prio"] for m in self.waiting + self.held["o"] + self.held["f"] if m["id"] == mid)

    def candidates(self, topic):
        ws = [m for m in self.waiting if m["topic"] == topic]
        out = []
        for m in ws:
            blocked = False
            if m["ret"] is None:  # fresh messages keep their enqueue order ...
                for o in ws:
                    if o is m or o["prio"] != m["prio"]:  # the order is defined within a priority only
                        continue
                    barrier = o["ret"] if o["ret"] is not None else o["orig"]
                    # ... and come after every message that (re-)entered the queue before them
                    if barrier < m["orig"]:
                        blocked = True
                        break
            if not blocked:
                out.append(m["id"])
        return out

    def take(self, topic, mid):
        m = next(x for x in self.waiting if x["id"] == mid)
        self.waiting.remove(m)
        self.held[topic].append(m)

    def reject(self, topic, which):
        h = self.held[topic]
        m = h.pop(0 if which == "oldest" else -1)
        self.seq += 1
        m["ret"] = self.seq
        self.waiting.append(m)
        return m["id"]

    def enabled(self, letter):
        if letter in ("ro", "rn"):
            return bool(self.held["o"])
        return True


def words(tier):
    out = []
    maxlen = 6 if tier == "quick" else 7
    sfx = 4 if tier == "quick" else 5
    for kind in ("mem", "redis", "amqp"):
        for mode in ("single", "dual"):
            out.append(dict(kind=kind, prefix=None, k=0, maxlen=maxlen, mode=mode))
            for pat in PATTERNS:
                if pat.startswith("f") and pat[1:].isdigit():
                    j = int(pat[1:])
                    if mode == "dual":
                        continue
                    for k in (j + 1, j + 2, j + 3):
                        out.append(dict(kind=kind, prefix=pat, k=k, maxlen=3 if tier == "quick" else 4, mode=mode))
                    continue
                for k in range(1, 14):
                    if tier == "quick" and k in (4, 5, 6, 7, 8):
                        continue
                    out.append(dict(kind=kind, prefix=pat, k=k, maxlen=sfx, mode=mode))
        # mixed priorities: the order is only defined within a priority; Redis picks the priority it
        # looks at first at random (harness-owned: each of the three orders for a whole execution)
        for prio in ("p2", "p3", "p3r"):
            for order in (REDIS_ORDERS if kind == "redis" else (None,)):
                out.append(dict(kind=kind, prefix=None, k=0, maxlen=maxlen - 1, mode="single", prio=prio, order=order))
                for pat in ("own", "alt"):
                    for k in (2, 3, 5, 11, 13) if tier == "quick" else range(1, 14):
                        out.append(dict(kind=kind, prefix=pat, k=k, maxlen=sfx - 1 if tier == "quick" else sfx,
                                        mode="single", prio=prio, order=order))
    return out


def enum_words(maxlen, mode="dual"):
    """All words up to maxlen that are enabled in the model (reject needs a held message).
    mode single: only the own-topic consumer exists (no 'cf')."""
    res = []
    letters = [l for l in LETTERS if mode == "dual" or l != "cf"]

    def rec(word, held, n):
        res.append(list(word))
        if len(word) == maxlen:
            return
        for l in letters:
            if l in ("ro", "rn") and held == 0:
                continue
            if l == "rn" and held < 2:
                continue  # same as "ro" with one held message
            nh = held + (1 if l == "co" else 0) - (1 if l in ("ro", "rn") else 0)
            rec(word + [l], max(nh, 0), n)

    rec([], 0, 0)
    return res


def execute(kind, prefix, k, word, mode="dual", prio=None, order=None):
    x = Exec(kind)
    w = x.world
    loop = x.loop
    model = Fifo()
    model.prio_of = PRIOS[prio]
    if order is not None:
        CLOCK.random_value = REDIS_ORDERS[order]
    viol = []
    trace = []
    try:
        cons = {}

        async def setup():
            await w.connect()
            await w.broker.queue_declare("q")
            for t in ("o", "f"):
                cons[t] = w.broker.get_consumer("q", [t], None, MessageCategory.NORMAL)

        x.run(setup())

        async def enq(topic):
            mid = model.enq(topic)
            await w.broker.enqueue(w.key(mid, topic, "q", model.prio(mid)), mid, w.params())

        async def prefill():
            for i in range(k):
                await enq(PATTERNS[prefix](i))
            await cons["o"].start()
            if mode == "dual":
                await cons["f"].start()

        x.run(prefill())
        for letter in word:
            if letter in ("eo", "ef"):
                x.run(enq(letter[1]))
                trace.append(letter)
                continue
            if letter in ("ro", "rn"):
                if not model.held["o"]:
                    break
                mid = model.reject("o", "oldest" if letter == "ro" else "newest")
                x.run(w.broker.reject(w.key(mid, "o", "q", model.prio(mid))))
                trace.append(f"{letter}:{mid}")
                continue
            topic = letter[1]
            cands = model.candidates(topic)
            fut = asyncio.ensure_future(cons[topic].consume(), loop=loop)
            limit = loop._ns + round(CONSUME_BUDGET * NS)
            while not fut.done():
                nt = loop.next_timer_ns()
                if not loop._ready and not loop._io and not (w.server is not None and w.server.busy()) \
                        and (nt is None or nt > limit):
                    break
                loop.step()
            if not fut.done():
                fut.cancel()
                for _ in range(200):
                    if fut.done():
                        break
                    loop.step()
                trace.append(f"{letter}:-")
                if cands:
                    # the model's held messages may hide behind a started consumer's prefetch, but
                    # something deliverable to this consumer must come out within the budget
                    viol.append(("starved", f"consume by the '{topic}' consumer returned nothing within {CONSUME_BUDGET}s, "
                                            f"model expects one of {cands}"))
                    break
                continue
            if fut.cancelled() or fut.exception() is not None:
                viol.append(("consume-failed", f"consume raised {fut.exception()!r}" if not fut.cancelled() else "consume cancelled"))
                break
            key, payload, params = fut.result()
            trace.append(f"{letter}:{key.id_}")
            if any(m["id"] == key.id_ for m in model.waiting) and key.priority != model.prio(key.id_):
                viol.append(("priority-changed", f"{key.id_} was enqueued with priority {model.prio(key.id_)}, delivered with {key.priority}"))
                break
            if key.topic != topic:
                viol.append(("foreign-delivered", f"the '{topic}' consumer received {key.id_} of topic {key.topic}"))
                break
            if key.id_ not in cands:
                if not any(m["id"] == key.id_ for m in model.waiting):
                    viol.append(("not-waiting", f"consume returned {key.id_} which is not waiting (trace {trace})"))
                else:
                    viol.append(("out-of-order", f"the '{topic}' consumer received {key.id_}, first-in first-out allows {cands} "
                                                 f"(waiting {[m['id'] for m in model.waiting if m['topic'] == topic]})"))
                break
            model.take(topic, key.id_)
        handles = loop.handles
    finally:
        x.close()
    return handles, viol, trace


def jobs(tier):
    out = []
    for fam in words(tier):
        ws = enum_words(fam["maxlen"], fam["mode"])
        n = 150
        for i in range(0, len(ws), n):
            out.append(dict(fam=fam, words=ws[i:i + n]))
    return out


def run_job(job):
    acc = Acc()
    fam = job["fam"]
    for word in job["words"]:
        handles, viol, trace = execute(fam["kind"], fam["prefix"], fam["k"], word, fam["mode"], fam.get("prio"), fam.get("order"))
        acc.executions += 1
        acc.handles += handles
        acc.choice_points += len(word)
        acc.outcomes.add(digest([fam, trace]))
        acc.phases[fam["mode"] + (":backlog>=10" if fam["k"] >= 10 else ":backlog<10") + (":mixed-priorities" if fam.get("prio") else "")] += 1
        for sig, what in viol:
            acc.violations.append(dict(
                signature=f"{fam['kind']} {sig} {fam['mode']}",
                what=what + f" [backlog {fam['k']} ({fam['prefix']}), word {word}"
                            + (f", priorities {fam['prio']}, Redis order {fam.get('order')}" if fam.get("prio") else "") + "]",
                job=dict(fam=fam, words=[word]),
                detail=trace,
            ))
        if len(acc.samples) < 2 and len(word) >= 3:
            acc.samples.append(dict(family=fam, word=word, trace=trace))
    return acc.to_dict()
