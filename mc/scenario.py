"""Shared driver for worker-level checks: enqueue messages, run one (or more) real Worker(s)
under the virtual loop, stop it, settle, observe."""
from __future__ import annotations

import asyncio
from datetime import timedelta

from .harness import BASIC, SIGTERM, Exec, actor_log
from .vloop import NS
from .world import params_view

HORIZON = {"mem": 0.25, "redis": 1.0, "amqp": 0.35}


class Result:
    def __init__(self):
        self.status = None
        self.value = None
        self.log = []
        self.obs = {}
        self.exc_log = []
        self.handles = 0
        self.iters = 0
        self.stop_ns = None
        self.ret_ns = None
        self.p0 = {}
        self.points = []
        self.left_tasks = 0
        self.extra = {}

    # -- helpers over the spy log ----------------------------------------------------------
    def calls(self, mid=None, top_only=True, names=("ack", "nack", "reject", "requeue")):
        out = []
        for r in self.log:
            if r[1] == "call" and r[2] in names and (mid is None or r[3] == mid):
                if top_only and r[7] > 0:
                    continue
                out.append(r)
        return out

    def actor_events(self, mid):
        return [r for r in self.log if r[1] == "actor" and r[3] == mid]


def run_worker(kind, *, build, messages, worker_kw=None, stop_at=None, stop_mode="signal",
               buckets=None, bucket_kind=None, deviations=None, settle=2.0, pre=None, during=None,
               max_iters=400_000, clients=1, queues=("q",), inject=None, configure=None, fail_calls=None,
               server_choices=False):
    """build(x, worker) registers actors; messages: list of dicts(id, topic, queue, payload, params,
    prio).  The worker is stopped by SIGTERM at virtual time `stop_at` (relative to its start)
    unless it stops by itself (messages_limit)."""
    x = Exec(kind, deviations=deviations, buckets=buckets, clients=clients, bucket_kind=bucket_kind)
    w = x.world
    res = Result()
    try:
        if configure is not None:
            configure(x)
        if fail_calls:
            w.fail_calls = set(map(tuple, fail_calls))
        wk = dict(graceful_shutdown_time=0.5)
        wk.update(worker_kw or {})
        worker = x.worker(**wk)
        build(x, worker)

        async def setup():
            await w.connect()
            for q in queues:
                await w.broker.queue_declare(q)
            if pre is not None:
                await pre(x)
            for m in messages:
                p = m.get("params")
                if callable(p):
                    p = p(w)
                res.p0[m["id"]] = params_view(p)
                key = w.key(m["id"], m.get("topic", "job"), m.get("queue", "q"), m.get("prio", 5))
                await w.broker.enqueue(key, m.get("payload", ""), p)

        st, v = x.run(setup())
        if st != "ok":
            raise AssertionError(f"setup failed: {st} {v!r}")
        if server_choices and w.server is not None:
            # timing of the server becomes a choice: a request may be overtaken (Redis), a reply /
            # confirm / write-drain may arrive after everything else at that instant (RabbitMQ)
            for flag in ("stall_choice", "late_choice"):
                if hasattr(w.server, flag):
                    setattr(w.server, flag, True)
        x.mark()

        def stop():
            if int(SIGTERM) in x.loop._sig:
                res.stop_ns = x.loop._ns
                x.loop.raise_signal(SIGTERM)

        if stop_at is None and stop_mode == "signal":
            stop_at = HORIZON[kind]
        if stop_at is not None:
            x.loop.call_later(stop_at, stop)
        if inject is not None:
            inject(x)
        if during is not None:
            asyncio.ensure_future(during(x), loop=x.loop)
        res.status, res.value = x.run(worker.run(), max_iters=max_iters)
        res.ret_ns = x.loop._ns
        res.iters = x.rel_iter
        x.settle(max_vt=settle)
        res.left_tasks = len(x.pending_tasks())
        res.obs = w.observe()
        res.log = list(x.log)
        res.handles = x.loop.handles
        res.points = list(x.chooser.points)
        res.exc_log = [repr(c.get("exception") or c.get("message")) for c in x.loop.exc_log]
        res.world = None
        if hasattr(build, "after"):
            build.after(x, res)
    finally:
        x.close()
    return res


def fixed_policy(seconds: float):
    def policy(retry_number: int = 1):
        return timedelta(seconds=seconds)
    return policy
