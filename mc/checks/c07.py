"""C07 - What the producer enqueued is what the consumer receives.

Bounded-exhaustive enumeration (not a proof over all JSON values / all durations):
(a) end to end: Job.enqueue() -> consume() on every broker, argument values x job settings x
    transport (inline / args bucket / explicit args id), then through a worker into the actor;
(b) codecs: decode(encode(x)) == x for parameters and buckets over timestamp / duration grids;
(c) names: every string of length <= 3 over an 8-letter alphabet through the validators and the
    brokers' key encodings.
"""
import asyncio
import dataclasses
import itertools
import json
from datetime import date, datetime, timedelta, timezone

import pydantic

from repid import Job, MessageDependency, Worker
from repid._processor import _Processor
from repid._utils import JSON_ENCODER, VALID_ID, VALID_NAME
from repid.connections.rabbitmq.utils import qnc as amqp_qnc
from repid.connections.redis import utils as rutils
from repid.converter import BasicConverter
from repid.data._buckets import ArgsBucket, ResultBucket
from repid.data._key import RoutingKey
from repid.data._parameters import DelayProperties, Parameters, ResultProperties, RetriesProperties
from repid.data.priorities import PrioritiesT
from repid.message import MessageCategory

from ..explore import Acc, digest
from ..harness import Exec
from ..vloop import CLOCK

ID = "C07"
LEVEL = "exploration"
RULE = ("(a) every argument value of the alphabet x transport x broker with default settings, and the full product of "
        "job settings (reduced alphabet in the quick tier) x transport x broker with one value; (b) every codec x "
        "timestamp grid x duration grid incl. all powers of two of microseconds up to 2^51 and 100 years +-1us; (c) all "
        "8^1+8^2+8^3 strings as ids / names; distinct and non-trivial = distinct (case, encoded form)")
ASSUMPTIONS = ["Redis / RabbitMQ replaced by in-process models; AMQP properties pass through pamqp's real codec",
               "finite alphabets: values outside them are not covered",
               "argument payloads starting with the reserved bucket marker are excluded (as in the statement)"]


@dataclasses.dataclass
class DC:
    a: int
    b: str


class PM(pydantic.BaseModel):
    x: int
    y: list


def values():
    return {
        "none": None, "true": True, "zero": 0, "neg": -1, "float": 1.5, "big": 1e308, "empty": "", "colon": "a:b",
        "unicode": "é ", "list": [], "nested-list": [1, [2]], "dict": {}, "nested-dict": {"k": {"k": [None]}},
        "dataclass": DC(1, "z"), "pydantic": PM(x=1, y=[1, "2"]), "date": date(2001, 9, 9),
        "naive-dt": datetime(2001, 9, 9, 1, 2, 3, 456789), "aware-dt": datetime(2001, 9, 9, 1, 2, 3, 1, tzinfo=timezone.utc),
        "timedelta": timedelta(days=1, microseconds=1),
    }


def settings(tier):
    T = lambda: CLOCK.now() + timedelta(seconds=30, microseconds=7)
    full = dict(
        priority=[PrioritiesT.LOW, PrioritiesT.MEDIUM, PrioritiesT.HIGH],
        deferred_until=[None, "T"],
        deferred_by=[None, timedelta(seconds=1), timedelta(seconds=1, microseconds=1)],
        retries=[0, 3],
        timeout=[timedelta(seconds=1), timedelta(minutes=10), timedelta(days=36500)],
        ttl=[None, timedelta(seconds=1), timedelta(seconds=1.5)],
        store_result=[False, True],
        result_ttl=[None, timedelta(days=1)],
    )
    if tier == "quick":
        full = {k: ([v[0], v[-1]] if k != "priority" else v) for k, v in full.items()}
    keys = list(full)
    for combo in itertools.product(*[full[k] for k in keys]):
        yield dict(zip(keys, combo))


TOP_LEVEL = {"top-empty-dict": {}, "top-empty-list": [], "top-zero": 0, "top-zero-float": 0.0, "top-false": False,
             "top-empty-str": "", "top-none": None, "top-list": [1], "top-str": "s", "top-int": 5, "top-dict": {"a": 1}}


def e2e(kind, transport, value_name, setting, through_worker):
    x = Exec(kind, buckets="both" if transport != "inline" else "results")
    w = x.world
    viol = []
    summary = {}
    try:
        top = value_name in TOP_LEVEL
        val = TOP_LEVEL[value_name] if top else values()[value_name]
        s = dict(setting)
        if s.get("deferred_until") == "T":
            s["deferred_until"] = CLOCK.now() + timedelta(seconds=30, microseconds=7)
        delayed = bool(s.get("deferred_until") or s.get("deferred_by"))
        got_args = []

        async def main():
            await w.connect()
            await w.broker.queue_declare("q")
            kw = dict(queue="q", id_="job-1_x", args=val if top else {"v": val}, _connection=w.conn, **s)
            if transport == "args_id":
                kw["args_id"] = "explicit-args"
            job = Job("job", **kw)
            key, args, params = await job.enqueue()
            cat = MessageCategory.DELAYED if delayed else MessageCategory.NORMAL
            c = w.broker.get_consumer("q", None, None, cat)
            await c.start()
            k2, payload, p2 = await asyncio.wait_for(c.consume(), 3.0)
            real_payload = await _Processor(w.conn).get_payload(payload)
            await w.broker.reject(k2)
            await c.finish()
            return job, key, args, params, k2, payload, real_payload, p2

        st, v = x.run(main(), max_iters=300_000)
        if st != "ok":
            viol.append(("e2e-failed", f"enqueue/consume ended with {st}: {v!r}"))
            return x.loop.handles, viol, summary
        job, key, args, params, k2, payload, real_payload, p2 = v
        want_payload = JSON_ENCODER.encode({"v": val}) if not isinstance(val, pydantic.BaseModel) else None
        if top:
            want_payload = "" if val is None else JSON_ENCODER.encode(val)
        if (k2.id_, k2.topic, k2.queue, k2.priority) != (key.id_, key.topic, key.queue, key.priority):
            viol.append(("key-differs", f"enqueued {key}, consumer received {k2}"))
        if k2.priority != s.get("priority", PrioritiesT.MEDIUM).value or k2.id_ != "job-1_x":
            viol.append(("key-differs", f"job priority {s.get('priority')} id job-1_x, consumer received {k2}"))
        if real_payload != args:
            viol.append(("payload-differs", f"enqueue() returned args {args!r}, consumer (after bucket lookup) has {real_payload!r}"))
        if want_payload is not None and args != want_payload:
            viol.append(("payload-differs", f"serialised args {args!r}, expected {want_payload!r}"))
        if transport != "inline" and "__repid_payload_id" not in payload and not (top and val is None and transport == "bucket"):
            viol.append(("transport", f"args bucket transport but the message payload is {payload!r}"))
        if p2 != params:
            diff = {f.name: (getattr(params, f.name), getattr(p2, f.name)) for f in dataclasses.fields(params)
                    if getattr(params, f.name) != getattr(p2, f.name)}
            viol.append(("params-differ", f"parameters changed in transit: {diff}"))
        exp = dict(timeout=s.get("timeout", timedelta(minutes=10)), retries=s.get("retries", 0), ttl=s.get("ttl"),
                   du=s.get("deferred_until"), db=s.get("deferred_by"))
        gotp = dict(timeout=p2.execution_timeout, retries=p2.retries.max_amount, ttl=p2.ttl, du=p2.delay.delay_until,
                    db=p2.delay.defer_by)
        if gotp != exp:
            viol.append(("params-differ", f"job settings {exp}, received parameters {gotp}"))
        if bool(s.get("store_result", True)) != (p2.result is not None):
            viol.append(("params-differ", f"store_result={s.get('store_result')} but received result settings {p2.result}"))
        elif p2.result is not None and p2.result.ttl != s.get("result_ttl", timedelta(days=1)):
            viol.append(("params-differ", f"result_ttl {s.get('result_ttl')} received as {p2.result.ttl}"))
        summary = dict(payload=payload[:60], real=real_payload[:60])
        if through_worker and not delayed and not top:
            worker = Worker(_connection=w.conn, graceful_shutdown_time=0.1, messages_limit=1, handle_signals=[])

            async def actor(v, m: MessageDependency):
                got_args.append(v)

            worker.actor(actor, name="job", queue="q", converter=BasicConverter)
            st, v2 = x.run(worker.run(), max_iters=300_000)
            want_v = json.loads(args)["v"]
            if got_args != [want_v]:
                viol.append(("actor-args", f"actor received {got_args}, expected [{want_v!r}] (status {st})"))
        handles = x.loop.handles
    finally:
        x.close()
    return handles, viol, summary


def pair(kind, transport, n_jobs):
    """Several jobs with different arguments are in flight at the same time (and are run by one worker):
    each one's consumer / actor gets its own arguments."""
    x = Exec(kind, buckets="both" if transport != "inline" else "results")
    w = x.world
    viol = []
    summary = {}
    try:
        vals = [{"v": [i, "x" * i]} for i in range(n_jobs)]

        async def main():
            await w.connect()
            await w.broker.queue_declare("q")
            sent = {}
            for i, val in enumerate(vals):
                kw = dict(queue="q", id_=f"job-{i}", args=val, _connection=w.conn)
                if transport == "args_id":
                    kw["args_id"] = f"explicit-{i}"
                key, args, params = await Job("job", **kw).enqueue()
                sent[key.id_] = args
            c = w.broker.get_consumer("q", None, None, MessageCategory.NORMAL)
            await c.start()
            got = {}
            keys = []
            for _ in vals:
                k2, payload, p2 = await asyncio.wait_for(c.consume(), 3.0)
                got[k2.id_] = await _Processor(w.conn).get_payload(payload)
                keys.append(k2)
            for k2 in keys:
                await w.broker.reject(k2)
            await c.finish()
            return sent, got

        st, v = x.run(main(), max_iters=300_000)
        if st != "ok":
            viol.append(("e2e-failed", f"enqueue/consume of {n_jobs} jobs ended with {st}: {v!r}"))
            return x.loop.handles, viol, summary
        sent, got = v
        if got != sent:
            viol.append(("payload-mixed-up", f"jobs were enqueued with {sent}, their consumers (after bucket lookup) have {got}"))
        ran = {}
        worker = Worker(_connection=w.conn, graceful_shutdown_time=0.1, messages_limit=n_jobs, handle_signals=[])

        async def actor(v, m: MessageDependency):
            ran[m.key.id_] = v

        worker.actor(actor, name="job", queue="q", converter=BasicConverter)
        st, v2 = x.run(worker.run(), max_iters=300_000)
        want = {f"job-{i}": val["v"] for i, val in enumerate(vals)}
        if ran != want:
            viol.append(("actor-args", f"actors received {ran}, expected {want} (status {st})"))
        summary = dict(got=got, ran=ran)
        handles = x.loop.handles
    finally:
        x.close()
    return handles, viol, summary


def reuse(kind, transport):
    """A job id is used again after the first job with it was completed: the second job's arguments and
    settings are what its consumer gets."""
    x = Exec(kind, buckets="both" if transport != "inline" else "results")
    w = x.world
    viol = []
    summary = {}
    try:
        async def main():
            await w.connect()
            await w.broker.queue_declare("q")
            c = w.broker.get_consumer("q", None, None, MessageCategory.NORMAL)
            await c.start()
            out = []
            for day, kw in ((1, dict(retries=1, timeout=timedelta(seconds=300))),
                            (2, dict(retries=3, timeout=timedelta(seconds=1200, microseconds=7), ttl=timedelta(hours=6)))):
                if transport == "args_id":
                    kw["args_id"] = f"explicit-{day}"
                job = Job("job", queue="q", id_="nightly", args={"day": day}, _connection=w.conn, **kw)
                key, args, params = await job.enqueue()
                k2, payload, p2 = await asyncio.wait_for(c.consume(), 3.0)
                real = await _Processor(w.conn).get_payload(payload)
                out.append((args, real, params, p2))
                await w.broker.ack(k2)
                await asyncio.sleep(1.0)
            await c.finish()
            return out

        st, v = x.run(main(), max_iters=300_000)
        if st != "ok":
            viol.append(("e2e-failed", f"two jobs with one id ended with {st}: {v!r}"))
            return x.loop.handles, viol, summary
        for n_, (args, real, params, p2) in enumerate(v):
            if real != args:
                viol.append(("payload-differs", f"job {n_ + 1} with the reused id was enqueued with {args!r}, its consumer has {real!r}"))
            if p2 != params:
                diff = {f.name: (getattr(params, f.name), getattr(p2, f.name)) for f in dataclasses.fields(params)
                        if getattr(params, f.name) != getattr(p2, f.name)}
                viol.append(("params-differ", f"job {n_ + 1} with the reused id: parameters changed in transit: {diff}"))
        summary = dict(got=[r for _, r, _, _ in v])
        handles = x.loop.handles
    finally:
        x.close()
    return handles, viol, summary


def codec_cases():
    tss = [datetime(2001, 9, 9, 1, 46, 40, us) for us in (0, 1, 999999)] + \
          [datetime(2001, 9, 9, 1, 46, 40, 5, tzinfo=timezone.utc),
           datetime(2001, 9, 9, 1, 46, 40, 999999, tzinfo=timezone(timedelta(hours=5, minutes=30)))]
    durs = [timedelta(microseconds=1), timedelta(microseconds=999999), timedelta(seconds=1), timedelta(seconds=1, microseconds=1),
            timedelta(seconds=86399, microseconds=999999), timedelta(days=1), timedelta(days=36500),
            timedelta(days=36500, microseconds=-1), timedelta(days=36500, microseconds=1)] + \
           [timedelta(microseconds=2 ** k) for k in range(0, 52)] + [timedelta(microseconds=2 ** k + 1) for k in range(20, 52, 3)]
    return tss, durs


def run_codecs(acc):
    tss, durs = codec_cases()
    viol = []

    def rt(cls, obj):
        acc.executions += 1
        try:
            enc = obj.encode()
            back = cls.decode(enc)
        except Exception as e:  # noqa: BLE001
            viol.append(("codec", f"{cls.__name__} round trip raised {type(e).__name__}: {e} for {obj}"))
            return
        acc.outcomes.add(digest([cls.__name__, enc]))
        if back != obj:
            viol.append(("codec", f"{cls.__name__}: decode(encode(x)) != x: {obj} -> {enc} -> {back}"))

    for ts in tss:
        for d in durs:
            rt(Parameters, Parameters(execution_timeout=d, ttl=d, timestamp=ts, retries=RetriesProperties(3, 1),
                                      result=ResultProperties(id_="r", ttl=d),
                                      delay=DelayProperties(delay_until=ts, defer_by=d, next_execution_time=ts)))
            rt(ArgsBucket, ArgsBucket(data="d", timestamp=ts, ttl=d))
            rt(ResultBucket, ResultBucket(data="d", started_when=1, finished_when=2 ** 62, success=False, exception="E",
                                          timestamp=ts, ttl=d))
        rt(DelayProperties, DelayProperties(delay_until=ts, defer_by=None, cron="5 4 * * *", next_execution_time=None))
        rt(Parameters, Parameters(timestamp=ts))
    for d in durs:
        rt(ResultProperties, ResultProperties(id_="x", ttl=d))
        rt(DelayProperties, DelayProperties(defer_by=d))
    rt(RetriesProperties, RetriesProperties(0, 0))
    rt(ResultProperties, ResultProperties(id_="x", ttl=None))
    return viol


ALPHA = ["a", "Z", "_", "-", "0", ":", " ", "é"]


def run_names(acc):
    viol = []
    strings = ["".join(t) for k in (1, 2, 3) for t in itertools.product(ALPHA, repeat=k)]
    names = [s for s in strings if VALID_NAME.fullmatch(s)]
    ids = [s for s in strings if VALID_ID.fullmatch(s)]
    acc.executions += len(strings) * 2
    acc.extra["accepted_names"] = len(names)
    acc.extra["accepted_ids"] = len(ids)
    suffixed = {amqp_qnc(n, delayed=True) for n in names} | {amqp_qnc(n, dead=True) for n in names}
    clash = suffixed & set(names)
    if clash:
        viol.append(("names", f"AMQP delayed/dead queue names collide with accepted queue names: {sorted(clash)[:3]}"))
    for s in strings:
        # validators and RoutingKey agree
        try:
            RoutingKey(topic="t", queue="q", id_=s)
            ok = True
        except ValueError:
            ok = False
        if ok != bool(VALID_ID.fullmatch(s)):
            viol.append(("names", f"RoutingKey accepts id {s!r}: {ok}, VALID_ID: {not ok}"))
            break
    # key encodings: a sample grid of accepted (id, topic, queue) triples: all ids x 6 names x 6 names
    pick = [n for n in names if len(n) <= 2][:6] + [n for n in names if len(n) == 3][:6]
    for id_ in ids:
        for topic in pick[:4]:
            for queue in pick[4:8]:
                for prio in (0, 5, 9):
                    key = RoutingKey(topic=topic, queue=queue, id_=id_, priority=prio)
                    acc.executions += 1
                    full = rutils.mnc(key)
                    short = rutils.mnc(key, short=True)
                    acc.outcomes.add(full)
                    try:
                        back = rutils.parse_message_name(full)
                        bshort = rutils.parse_short_message_name(short)
                    except Exception as e:  # noqa: BLE001
                        viol.append(("names", f"message name {full!r} does not parse back: {e}"))
                        return viol
                    if back != (id_, topic, queue, prio) or bshort != (topic, id_):
                        viol.append(("names", f"{key} -> {full!r} parses back as {back} / {bshort}"))
                        return viol
                    for dl, dd in ((False, False), (True, False), (False, True)):
                        qn = rutils.qnc(queue, prio, delayed=dl, dead=dd)
                        marker = rutils.get_queue_marker(qn)
                        if marker != ("dead" if dd else "d" if dl else "n"):
                            viol.append(("names", f"queue name {qn!r} has marker {marker!r}"))
                            return viol
                        if rutils.full_message_name_from_short(short, qn) != full:
                            viol.append(("names", f"full name from {short!r} + {qn!r} is {rutils.full_message_name_from_short(short, qn)!r}, expected {full!r}"))
                            return viol
    return viol


def jobs(tier):
    cases = []
    for kind in ("mem", "redis", "amqp"):
        for tr in ("inline", "bucket", "args_id"):
            for vn in list(values()) + list(TOP_LEVEL):
                if vn == "top-none" and tr == "args_id":
                    continue  # an explicit args id without args refers to a bucket stored elsewhere
                cases.append(dict(t="e2e", kind=kind, tr=tr, val=vn, setting={}, worker=True))
            for s in settings(tier):
                s2 = {k: (v.name if isinstance(v, PrioritiesT) else v.total_seconds() if isinstance(v, timedelta) else v)
                      for k, v in s.items()}
                cases.append(dict(t="e2e", kind=kind, tr=tr, val="nested-dict", setting=s2, worker=False))
    for kind in ("mem", "redis", "amqp"):
        for tr in ("inline", "bucket", "args_id"):
            for nj in (2, 3):
                cases.append(dict(t="pair", kind=kind, tr=tr, n=nj))
            cases.append(dict(t="reuse", kind=kind, tr=tr))
    n = 40
    out = [dict(cases=cases[i:i + n]) for i in range(0, len(cases), n)]
    out.append(dict(cases=[dict(t="codecs")]))
    out.append(dict(cases=[dict(t="names")]))
    return out


def _setting_from_json(s):
    out = {}
    for k, v in s.items():
        if k == "priority":
            out[k] = PrioritiesT[v]
        elif k in ("deferred_by", "timeout", "ttl", "result_ttl") and v is not None:
            out[k] = timedelta(seconds=v)
        else:
            out[k] = v
    return out


def run_job(job):
    acc = Acc()
    for c in job["cases"]:
        if c["t"] == "codecs":
            viol = run_codecs(acc)
            summary = None
        elif c["t"] == "names":
            viol = run_names(acc)
            summary = None
        elif c["t"] in ("pair", "reuse"):
            handles, viol, summary = pair(c["kind"], c["tr"], c["n"]) if c["t"] == "pair" else reuse(c["kind"], c["tr"])
            acc.handles += handles
            acc.executions += 1
            acc.outcomes.add(digest([c, summary]))
        else:
            handles, viol, summary = e2e(c["kind"], c["tr"], c["val"], _setting_from_json(c["setting"]), c["worker"])
            acc.handles += handles
            acc.executions += 1
            acc.outcomes.add(digest([c, summary]))
        acc.choice_points += 1
        acc.phases[c["t"]] += 1
        seen = set()
        for sig, what in viol:
            if sig in seen:
                continue
            seen.add(sig)
            where = c.get("kind", "")
            acc.violations.append(dict(signature=f"{where} {sig}".strip(), what=what + f" [case {c}]", job=dict(cases=[c])))
        if len(acc.samples) < 2 and c["t"] == "e2e":
            acc.samples.append(dict(case=c, observed=summary))
    return acc.to_dict()
