"""C11 - A job reaches exactly the actor it names, only through that actor's queue.

Part 1 (static): every sequence of up to 3 registrations (name x queue x holder: two routers and the
worker itself) -> Worker(routers=...) actor map and topics_by_queue against the model.
Part 2 (dynamic): registration sequences x job sequences x complementary second worker x
tasks_limit x broker, each a real worker run; which function ran for which id, and where every
non-matching message is afterwards.
"""
import asyncio
import itertools

from repid import MessageDependency, Router, Worker
from repid.converter import BasicConverter

from ..explore import Acc, digest
from ..harness import SIGTERM, Exec
from ..vloop import NS
from ..world import params_view

ID = "C11"
LEVEL = "model_checking"
RULE = ("static: all registration sequences of length <= 3 over name{a,b} x queue{q1,q2} x holder{router1, router2, "
        "worker}; dynamic: all registration sequences of length <= 2 (plus every length-3 sequence that re-registers a "
        "name) x all job sequences of length <= 2 over name{a,b,c} x queue{q1,q2} (plus foreign-first backlogs) x "
        "second worker present/absent x tasks_limit{1,2} x broker; distinct = distinct (configuration, who ran what)")
ASSUMPTIONS = ["Redis / RabbitMQ replaced by in-process models",
               "routers are included in the order router1, router2, then the worker's own registrations"]

NAMES = ["a", "b"]
QUEUES = ["q1", "q2"]
HOLDERS = ["r1", "r2", "w"]
HORIZON = {"mem": 0.12, "redis": 1.3, "amqp": 0.9}


def reg_sequences(maxlen):
    regs = [(n, q, h) for n in NAMES for q in QUEUES for h in HOLDERS]
    out = []
    for k in range(1, maxlen + 1):
        out.extend([list(s) for s in itertools.product(regs, repeat=k)])
    return out


def effective(seq):
    """Registrations in the order they take effect: router1's, router2's, the worker's own."""
    order = []
    for h in HOLDERS:
        order.extend((i, r) for i, r in enumerate(seq) if r[2] == h)
    win = {}
    for i, (n, q, h) in order:
        win[n] = (q, i)
    return win  # name -> (queue, index of the winning registration)


def build(seq, conn, ran=None, w=None):
    routers = {"r1": Router(), "r2": Router()}
    worker_regs = []
    fns = {}
    for i, (n, q, h) in enumerate(seq):
        def mk(i=i, n=n):
            async def fn(m: MessageDependency):
                if ran is not None:
                    ran.append((m.key.id_, i, m.key.queue))
                await asyncio.sleep(0.002)
            fn.__name__ = f"fn{i}"
            return fn
        fns[i] = mk()
        if h == "w":
            worker_regs.append((i, n, q))
        else:
            routers[h].actor(fns[i], name=n, queue=q, converter=BasicConverter)
    return routers, worker_regs, fns


def static_case(seq):
    viol = []
    ex = None
    routers, worker_regs, fns = build(seq, None)
    worker = Worker(routers=[routers["r1"], routers["r2"]], _connection=object.__new__(object) if False else _DummyConn())
    for i, n, q in worker_regs:
        worker.actor(fns[i], name=n, queue=q, converter=BasicConverter)
    win = effective(seq)
    got_actors = {n: (a.queue, a.fn.__name__) for n, a in worker.actors.items()}
    want_actors = {n: (q, f"fn{i}") for n, (q, i) in win.items()}
    if got_actors != want_actors:
        viol.append(("actor-map", f"registrations {seq}: worker.actors = {got_actors}, expected {want_actors}"))
    got_topics = {q: sorted(t) for q, t in worker.topics_by_queue.items() if t}
    want_topics = {}
    for n, (q, i) in win.items():
        want_topics.setdefault(q, []).append(n)
    want_topics = {q: sorted(t) for q, t in want_topics.items()}
    if got_topics != want_topics:
        viol.append(("topics-by-queue", f"registrations {seq}: topics_by_queue = {got_topics}, expected {want_topics}"))
    return viol, (got_actors, got_topics)


class _DummyConn:
    message_broker = None


JOBS = [(n, q) for n in ["a", "b", "c"] for q in QUEUES]


def job_sequences(tier):
    out = []
    for k in (1, 2):
        out.extend([list(s) for s in itertools.product(JOBS, repeat=k)])
    # own messages behind foreign ones, and a longer mixed backlog
    out.append([("c", "q1"), ("c", "q1"), ("a", "q1")])
    out.append([("b", "q1"), ("c", "q1"), ("a", "q1"), ("a", "q2")])
    out.append([("a", "q2"), ("a", "q1"), ("b", "q2"), ("b", "q1")])
    return out


def dynamic_case(kind, seq, jobs_, second, tl):
    x = Exec(kind, clients=2 if second else 1)
    w = x.world
    loop = x.loop
    ran = []
    ran2 = []
    viol = []
    try:
        routers, worker_regs, fns = build(seq, w.conn, ran, w)
        worker = Worker(routers=[routers["r1"], routers["r2"]], _connection=w.conn, graceful_shutdown_time=0.1,
                        tasks_limit=tl, handle_signals=[])
        for i, n, q in worker_regs:
            worker.actor(fns[i], name=n, queue=q, converter=BasicConverter)
        win = effective(seq)
        served = {(n, q) for n, (q, i) in win.items()}
        workers = [worker]
        if second:
            # a second worker (own connection) serves every (name, queue) the first one does not
            w2 = Worker(_connection=w.conns[1], graceful_shutdown_time=0.1, tasks_limit=tl, handle_signals=[])
            for (n, q) in JOBS:
                if (n, q) not in served and not any(nn == n for nn, _ in [(a, b) for a, b in []]):
                    pass
            # one actor per foreign name, bound to the queue where it is foreign; a name foreign on
            # both queues can only be served on one of them (names are unique per worker)
            taken = set()
            for (n, q) in JOBS:
                if (n, q) in served or n in taken:
                    continue
                if any((n, q2) in served for q2 in QUEUES):
                    # the first worker owns this name on the other queue: serve this queue's copy
                    pass
                taken.add(n)

                def mk2(n=n, q=q):
                    async def fn(m: MessageDependency):
                        ran2.append((m.key.id_, n, m.key.queue))
                    fn.__name__ = f"second_{n}_{q}"
                    return fn
                w2.actor(mk2(), name=n, queue=q, converter=BasicConverter)
            workers.append(w2)
            served2 = {(a.name, a.queue) for a in w2.actors.values()}
        else:
            served2 = set()
        p0 = {}

        async def setup():
            await w.connect()
            for q in QUEUES:
                await w.broker.queue_declare(q)
            for j, (n, q) in enumerate(jobs_):
                p = w.params(timeout=50.0)
                p0[f"j{j}"] = params_view(p)
                await w.broker.enqueue(w.key(f"j{j}", n, q), "", p)

        st, v = x.run(setup())
        assert st == "ok", (st, v)
        runners = {}

        async def run(ci, wk):
            wk._register_signals = lambda lp, runner: runners.__setitem__(ci, runner)
            return await wk.run()

        tasks = [asyncio.ensure_future(run(ci, wk), loop=loop) for ci, wk in enumerate(workers)]
        loop.run_for(HORIZON[kind] + 0.01 * len(jobs_))
        for r in runners.values():
            r.sync_stop_wait_and_cancel(0.0)
        loop.run_for(0.6)
        x.settle(0.3)
        dead_tasks = [repr(t.exception()) for t in tasks if t.done() and not t.cancelled() and t.exception() is not None]
        if dead_tasks or not all(t.done() for t in tasks):
            viol.append(("worker-died", f"worker ended abnormally: {dead_tasks or 'still running'}"))
        obs = w.observe()
        # ---- oracle
        for j, (n, q) in enumerate(jobs_):
            mid = f"j{j}"
            mine = n in win and win[n][0] == q
            runs = [r for r in ran if r[0] == mid]
            ents = obs.get(mid, [])
            if mine:
                if [r[1] for r in runs] != [win[n][1]]:
                    viol.append(("wrong-actor", f"job {mid} ({n} via {q}) was run by registrations {[r[1] for r in runs]}, "
                                                f"expected exactly the winning registration {win[n][1]} of {seq}"))
                if ents:
                    viol.append(("not-consumed", f"job {mid} ({n} via {q}) belongs to the worker but is still in {[e['place'] for e in ents]}"))
            else:
                if runs:
                    viol.append(("foreign-executed", f"job {mid} ({n} via {q}) was executed by registration {runs[0][1]} although the "
                                                     f"worker has no actor {n!r} on queue {q!r} (registrations {seq})"))
                elif (n, q) in served2:
                    if [r for r in ran2 if r[0] == mid] == [] or ents:
                        viol.append(("foreign-not-available", f"job {mid} ({n} via {q}) is served by the second worker but was "
                                                              f"not processed by it (still in {[e['place'] for e in ents]})"))
                else:
                    if len(ents) != 1 or ents[0]["place"] != "waiting":
                        viol.append(("foreign-disturbed", f"job {mid} ({n} via {q}) is nobody's; it should still be waiting but is in "
                                                          f"{[e['place'] for e in ents]}"))
                    elif ents[0]["params"] != p0[mid]:
                        viol.append(("foreign-disturbed", f"job {mid} ({n} via {q}): parameters changed to {ents[0]['params']}"))
        summary = dict(ran=sorted(ran), ran2=sorted(ran2), left={k: [e["place"] for e in v_] for k, v_ in obs.items() if not k.startswith("__")})
        handles = loop.handles
    finally:
        x.close()
    return handles, viol, summary


def jobs(tier):
    out = []
    seqs3 = reg_sequences(3)
    n = 400
    for i in range(0, len(seqs3), n):
        out.append(dict(static=seqs3[i:i + n]))
    seqs = reg_sequences(2)
    # length 3: those which register some name more than once (overrides), on one holder order
    seqs += [s for s in seqs3 if len(s) == 3 and len({r[0] for r in s}) < 3 and len({r[2] for r in s}) <= 2
             and (tier == "thorough" or (s[0][2] == "r1" and s[2][2] in ("r1", "w")))]
    js = job_sequences(tier)
    cases = []
    for kind in ("mem", "redis", "amqp"):
        for si, seq in enumerate(seqs):
            for ji, jb in enumerate(js):
                for second in (False, True):
                    for tl in (1, 2):
                        if tier == "quick":
                            # thin the product deterministically: every registration sequence meets every
                            # job sequence on the in-memory broker; the other brokers get a rotating subset
                            if kind == "mem" and (len(seq) == 3 or len(jb) > 2) and (si + ji + tl + second) % 3:
                                continue
                            if kind != "mem" and (si * 7 + ji * 3 + tl + second) % 9:
                                continue
                        cases.append(dict(kind=kind, seq=seq, jobs=jb, second=second, tl=tl))
    m = 60
    for i in range(0, len(cases), m):
        out.append(dict(dynamic=cases[i:i + m]))
    return out


def run_job(job):
    acc = Acc()
    for seq in job.get("static", []):
        viol, summary = static_case(seq)
        acc.executions += 1
        acc.choice_points += len(seq)
        acc.phases["static"] += 1
        acc.outcomes.add(digest(["static", seq, summary]))
        for sig, what in viol:
            acc.violations.append(dict(signature=f"static {sig}", what=what, job=dict(static=[seq])))
    for c in job.get("dynamic", []):
        handles, viol, summary = dynamic_case(c["kind"], c["seq"], c["jobs"], c["second"], c["tl"])
        acc.executions += 1
        acc.handles += handles
        acc.choice_points += len(c["seq"]) + len(c["jobs"])
        acc.phases["dynamic:" + c["kind"]] += 1
        acc.outcomes.add(digest([c, summary]))
        seen = set()
        win = effective(c["seq"])
        mixed = len({(n in win and win[n][0] == q) for n, q in c["jobs"]}) > 1 or \
            (c["second"] and len({n for n, q in c["jobs"]}) > 1)
        for sig, what in viol:
            if c["kind"] == "amqp" and mixed and (sig in ("not-consumed", "foreign-not-available") or
                                                  (sig == "wrong-actor" and "registrations []" in what)):
                # one phenomenon: a message is not delivered to the consumer it belongs to while
                # messages of topics foreign to that consumer share the queue
                sig = "starved-behind-foreign-topic"
            if sig in seen:
                continue
            seen.add(sig)
            acc.violations.append(dict(signature=f"{c['kind']} {sig}",
                                       what=what + f" [second worker: {c['second']}, tasks_limit {c['tl']}]", job=dict(dynamic=[c]), detail=summary))
        if len(acc.samples) < 2 and len(c["seq"]) > 1:
            acc.samples.append(dict(case=c, observed=summary))
    return acc.to_dict()
