#!/usr/bin/env python3
"""Re-run every seeded change against the current /repo HEAD and its detecting checks, on a scratch
copy of the repository ($SEEDTREE, default /root/seedtree; /repo itself is only read).

Patches were made against older trees; contexts drift as fixes land, so a patch that no longer
applies with `git apply` is tried with `patch --fuzz=3`.  Results are written back to each
seeded/<name>/meta.json under "reverified".   usage: reverify_seeds.py [name ...] [--tier quick]
"""
import json
import os
import re
import subprocess
import sys


def sh(cmd):
    return subprocess.run(cmd, shell=True, capture_output=True, text=True)


def main():
    names = [a for a in sys.argv[1:] if not a.startswith("--")]
    root = "/verif/seeded"
    head = sh("git -C /repo rev-parse --short HEAD").stdout.strip()
    if sh("git -C /repo status --short").stdout.strip():
        print("refusing: /repo is dirty")
        return 2
    tree = os.environ.get("SEEDTREE", "/root/seedtree")
    cpus = os.environ.get("CPUS")
    pin = f"taskset -c {cpus} " if cpus else ""
    rows = []
    for name in sorted(os.listdir(root)):
        if names and name not in names:
            continue
        d = os.path.join(root, name)
        meta = json.load(open(os.path.join(d, "meta.json")))
        patch = os.path.join(d, "patch.diff")
        sh(f"rm -rf {tree} && mkdir -p {tree} && rsync -a --exclude .git --exclude __pycache__ --exclude docs "
           f"--exclude benchmarks /repo/ {tree}/")
        how = "patch"
        r = sh(f"cd {tree} && patch -p1 --fuzz=0 --no-backup-if-mismatch -s < {patch}")
        if r.returncode != 0:
            how = "patch --fuzz=3"
            sh(f"rm -rf {tree} && mkdir -p {tree} && rsync -a --exclude .git --exclude __pycache__ --exclude docs "
               f"--exclude benchmarks /repo/ {tree}/")
            r = sh(f"cd {tree} && patch -p1 --fuzz=3 --no-backup-if-mismatch -s < {patch}")
        res = dict(head=head, applied_with=how, applies=r.returncode == 0)
        try:
            if r.returncode == 0:
                imp = sh(f"cd {tree} && PYTHONPATH={tree} /venv/bin/python -c 'import repid'")
                res["imports"] = imp.returncode == 0
                demo = sh(f"cd {tree} && PYTHONPATH={tree} timeout 600 /venv/bin/python {d}/demo.py")
                res["demo_exit_with_change"] = demo.returncode
                checks = meta.get("detected_by") or [meta.get("property")]
                det = {}
                for c in checks:
                    rr = sh(f"cd /verif && REPID_TREE={tree} MC_OUT={tree}.out {pin}./check {c} quick")
                    viols = len(re.findall(r"^VIOLATION property=", rr.stdout, re.M))
                    det[c] = dict(exit=rr.returncode, violations=viols)
                res["checks"] = det
                res["detected_by"] = [c for c, v in det.items() if v["exit"] == 1 and v["violations"] > 0]
        finally:
            sh(f"rm -rf {tree} {tree}.out")
        meta["reverified"] = res
        json.dump(meta, open(os.path.join(d, "meta.json"), "w"), indent=1)
        rows.append((name, res))
        print(name, json.dumps(res))
    return 0


if __name__ == "__main__":
    sys.exit(main())
