"""C18 - Dependencies resolve to exactly what their providers return.

All provider DAGs with up to 4 nodes (depth <= 3, fan-out <= 2, shared sub-dependencies), sync /
async / message-taking / raising providers, actors with 1-2 dependency parameters next to 0-2
payload parameters, override histories applied before and between two jobs, both converters.
Every case runs through the real `_Processor.actor_run`; failing providers additionally through a
real worker for the disposition; unsupported declarations must be rejected at declaration time.
"""
import asyncio
import itertools
import json
from typing import Annotated

from repid import Connection, Depends, InMemoryMessageBroker, MessageDependency
from repid._processor import _Processor
from repid.actor import ActorData
from repid.converter import BasicConverter, PydanticConverter
from repid.data._key import RoutingKey
from repid.data._parameters import Parameters
from repid.retry_policy import default_retry_policy_factory

from ..explore import Acc, digest
from ..harness import actor_log
from ..scenario import fixed_policy, run_worker

ID = "C18"
LEVEL = "model_checking"
RULE = ("all provider DAGs with <= 4 nodes, depth <= 3, fan-out <= 2 x actor roots (1-2 dependency parameters) x provider "
        "flavour pattern x payload parameters x override history (none / before / between two jobs; fewer, more, different "
        "sub-dependencies) x converter; distinct = distinct (graph, flavours, overrides, received values)")
ASSUMPTIONS = ["sync providers run through the inlined executor of the virtual loop in the worker cases and through a real "
               "thread pool in the direct cases", "run_in_process providers are outside (process pools)"]


def shapes(maxn=4):
    out = []
    for n in range(1, maxn + 1):
        choices = []
        for i in range(n):
            later = list(range(i + 1, n))
            subs = [()] + [(a,) for a in later] + list(itertools.combinations(later, 2))
            choices.append(subs)
        for adj in itertools.product(*choices):
            # depth <= 3 edges from any node
            def depth(i):
                return 0 if not adj[i] else 1 + max(depth(j) for j in adj[i])
            if max(depth(i) for i in range(n)) > 2:
                continue
            out.append([list(a) for a in adj])
    return out


FLAVOURS = ["async", "sync", "mixed", "message"]


def build_graph(adj, flavour, calls, raising=None):
    """Returns list of Depends objects; node i calls `calls.append(i)` and returns a string that
    spells out what it was called with."""
    n = len(adj)
    deps = [None] * n
    for i in reversed(range(n)):
        is_async = flavour == "async" or (flavour in ("mixed", "message") and i % 2 == 0)
        takes_msg = flavour == "message" and (i % 2 == 1 or not adj[i])
        params = [f"s{j}: Annotated[str, deps[{j}]]" for j in adj[i]]
        if takes_msg:
            params.append("m: MessageDependency")
        body = f"    calls.append({i})\n"
        if raising == i:
            body += f"    raise RuntimeError('provider {i} failed')\n"
        parts = " + ',' + ".join(f"s{j}" for j in adj[i]) if adj[i] else "''"
        body += f"    return 'n{i}(' + {parts} + ')'" + (" + '@' + m.key.id_" if takes_msg else "") + "\n"
        src = ("async " if is_async else "") + f"def prov{i}({', '.join(params)}):\n" + body
        ns = dict(Annotated=Annotated, deps=deps, MessageDependency=MessageDependency, calls=calls)
        exec(src, ns)  # noqa: S102 - generated provider
        deps[i] = Depends(ns[f"prov{i}"])
    return deps


def model_value(adj, flavour, i, overrides, mid):
    """Reference evaluation of node i."""
    if i in overrides:
        kind = overrides[i]
        if kind == "const":
            return f"ov{i}()"
        if kind == "more":  # takes every later node
            subs = list(range(i + 1, len(adj)))[:2]
            return f"ov{i}(" + ",".join(model_value(adj, flavour, j, overrides, mid) for j in subs) + ")"
        if kind == "other":  # takes only the last node (if any later node exists)
            subs = [len(adj) - 1] if i < len(adj) - 1 else []
            return f"ov{i}(" + ",".join(model_value(adj, flavour, j, overrides, mid) for j in subs) + ")"
    takes_msg = flavour == "message" and (i % 2 == 1 or not adj[i])
    return f"n{i}(" + ",".join(model_value(adj, flavour, j, overrides, mid) for j in adj[i]) + ")" + (f"@{mid}" if takes_msg else "")


def apply_override(deps, adj, i, kind, calls):
    n = len(adj)
    if kind == "const":
        def ov():
            calls.append(("ov", i))
            return f"ov{i}()"
        deps[i].override(ov)
        return
    subs = list(range(i + 1, n))[:2] if kind == "more" else ([n - 1] if i < n - 1 else [])
    params = [f"s{j}: Annotated[str, deps[{j}]]" for j in subs]
    parts = " + ',' + ".join(f"s{j}" for j in subs) if subs else "''"
    src = f"async def ov({', '.join(params)}):\n    calls.append(('ov', {i}))\n    return 'ov{i}(' + {parts} + ')'\n"
    ns = dict(Annotated=Annotated, deps=deps, calls=calls)
    exec(src, ns)  # noqa: S102
    deps[i].override(ns["ov"])


def make_actor(deps, roots, npayload, received, conv):
    # dependency parameters mixed in between the payload parameters (keyword-only section, so that
    # a default may precede a parameter without one)
    params = ["*"] + [f"a{k}: int" + (" = 5" if k == 1 else "") for k in range(npayload)]
    for pos, r in enumerate(roots):
        params.insert(1 + min(pos, len(params) - 1), f"d{r}: Annotated[str, deps[{r}]]")
    rec = "dict(" + ", ".join([f"a{k}=a{k}" for k in range(npayload)] + [f"d{r}=d{r}" for r in roots]) + ")"
    src = f"async def actor({', '.join(params)}):\n    received.append({rec})\n    return 1\n"
    ns = dict(Annotated=Annotated, deps=deps, received=received)
    exec(src, ns)  # noqa: S102
    fn = ns["actor"]
    return ActorData(fn=fn, name="actor", queue="q", retry_policy=default_retry_policy_factory(), converter=conv(fn))


def run_direct(case):
    adj, flavour, roots = case["adj"], case["flavour"], case["roots"]
    conv = BasicConverter if case["conv"] == "basic" else PydanticConverter
    calls = []
    received = []
    viol = []
    deps = build_graph(adj, flavour, calls)
    conn = Connection(InMemoryMessageBroker())
    proc = _Processor(conn)
    loop = asyncio.get_event_loop()
    overrides = {}
    plan = case["overrides"]  # list of (when, node, kind): when in {"before", "between"}
    for when, node, kind in plan:
        if when == "before" and node < len(adj):
            apply_override(deps, adj, node, kind, calls)
            overrides[node] = kind
    actor = make_actor(deps, roots, case["npayload"], received, conv)
    outs = []
    for jobno in (0, 1):
        if jobno == 1:
            for when, node, kind in plan:
                if when == "between" and node < len(adj):
                    apply_override(deps, adj, node, kind, calls)
                    overrides[node] = kind
        mid = f"m{jobno}"
        key = RoutingKey(topic="actor", queue="q", id_=mid)
        payload = json.dumps({f"a{k}": 10 + k for k in range(case["npayload"])}) if case["npayload"] else ""
        received.clear()
        calls.clear()
        res = loop.run_until_complete(proc.actor_run(actor, key, Parameters(), payload, conn))
        want = {f"a{k}": 10 + k for k in range(case["npayload"])}
        for r in roots:
            want[f"d{r}"] = model_value(adj, flavour, r, overrides, mid)
        outs.append((res.success, list(received)))
        head = f"graph {adj} roots {roots} flavour {flavour} overrides {plan} job {jobno} ({case['conv']})"
        if not res.success or len(received) != 1:
            viol.append(("not-run", f"{head}: success={res.success} exception={res.exception!r} calls={len(received)}"))
            continue
        if received[0] != want:
            viol.append(("wrong-value", f"{head}: actor received {received[0]}, expected {want}"))
    return viol, outs


def run_failing(case):
    """A raising provider: failed execution, actor body not entered, retry rules apply."""
    adj, roots, bad = case["adj"], case["roots"], case["raising"]
    calls = []

    def build(x, worker):
        w = x.world
        deps = build_graph(adj, "async", calls, raising=bad)
        src = "async def actor(" + ", ".join(f"d{r}: Annotated[str, deps[{r}]]" for r in roots) + "):\n    log('entered')\n    return 1\n"
        ns = dict(Annotated=Annotated, deps=deps, log=lambda e: actor_log(w, "m0", e))
        exec(src, ns)  # noqa: S102
        worker.actor(ns["actor"], name="actor", queue="q", converter=BasicConverter, retry_policy=fixed_policy(100.0))

    mx, tried = case["retries"]
    msgs = [dict(id="m0", topic="actor", payload="", params=lambda w: w.params(retries=mx, tried=tried))]
    res = run_worker("mem", build=build, messages=msgs, stop_at=0.05, worker_kw=dict(graceful_shutdown_time=0.05))
    viol = []
    reach = set()

    def walk(i):
        reach.add(i)
        for j in adj[i]:
            walk(j)
    for r in roots:
        walk(r)
    fails = bad in reach
    entered = any(r[1] == "actor" and r[2] == "entered" for r in res.log)
    top = [(r[2], r[5]["tried"] if r[5] else None) for r in res.calls("m0")]
    if fails:
        want = [("requeue", tried + 1)] if tried < mx else [("nack", None)]
        if entered:
            viol.append(("body-entered", f"provider {bad} raised but the actor body ran (graph {adj}, roots {roots})"))
        if top != want:
            viol.append(("disposition", f"provider {bad} raised: broker calls {top}, expected {want} (retries {mx}/{tried})"))
    else:
        if not entered or top != [("ack", None)]:
            viol.append(("disposition", f"unreachable failing provider {bad} disturbed the job: entered={entered} calls={top}"))
    return viol, [(fails, entered, top)], res.handles


def run_declarations():
    """Unsupported declarations are rejected when declared."""
    viol = []
    n = 0

    def prov():
        return 1

    dep = Depends(prov)
    bad_sources = {
        "dependency in a positional-only slot of an actor": "async def f(d: Annotated[int, dep], /): return d",
        "message dependency in a positional-only slot of an actor": "async def f(m: MessageDependency, /): return 1",
    }
    for conv in (BasicConverter, PydanticConverter):
        for what, src in bad_sources.items():
            ns = dict(Annotated=Annotated, dep=dep, MessageDependency=MessageDependency)
            exec(src, ns)  # noqa: S102
            n += 1
            try:
                conv(ns["f"])
                viol.append(("declaration-accepted", f"{what} was accepted by {conv.__name__}"))
            except ValueError:
                pass
    sub_bad = {
        "provider parameter without default and without dependency": "def p(x): return x",
        "dependency in a positional-only slot of a provider": "def p(d: Annotated[int, dep], /): return d",
    }
    for what, src in sub_bad.items():
        ns = dict(Annotated=Annotated, dep=dep)
        exec(src, ns)  # noqa: S102
        n += 1
        try:
            Depends(ns["p"])
            viol.append(("declaration-accepted", f"{what} was accepted by Depends()"))
        except ValueError:
            pass
        n += 1
        try:
            d2 = Depends(prov)
            d2.override(ns["p"])
            viol.append(("declaration-accepted", f"{what} was accepted by Depends.override()"))
        except ValueError:
            pass
    # supported: provider parameters with defaults, keyword-only dependencies
    ok_src = "def p(x=1, *, d: Annotated[int, dep]): return x + d"
    ns = dict(Annotated=Annotated, dep=dep)
    exec(ok_src, ns)  # noqa: S102
    n += 1
    try:
        Depends(ns["p"])
    except ValueError as e:
        viol.append(("declaration-rejected", f"a supported provider declaration was rejected: {e}"))
    return viol, n


def cases(tier):
    out = []
    sh = shapes(4)
    plans = [[], [["before", 0, "const"]], [["between", 0, "const"]], [["between", 1, "more"]], [["before", 1, "other"]],
             [["before", 0, "more"], ["between", 1, "const"]], [["between", 2, "const"]]]
    for adj in sh:
        n = len(adj)
        root_sets = [[r] for r in range(n)] + [list(c) for c in itertools.combinations(range(n), 2)]
        for roots in root_sets:
            for fi, flavour in enumerate(FLAVOURS):
                for conv in ("basic", "pydantic"):
                    # rotate the secondary dimensions so that the quick tier still meets every value
                    sel = (len(out) + fi) % len(plans)
                    todo = plans if tier == "thorough" else [plans[sel], plans[0]]
                    seen = set()
                    for plan in todo:
                        if json.dumps(plan) in seen:
                            continue
                        seen.add(json.dumps(plan))
                        npl = [0, 1, 2] if tier == "thorough" else [(len(out) + len(seen)) % 3]
                        for npayload in npl:
                            out.append(dict(t="direct", adj=adj, roots=roots, flavour=flavour, conv=conv,
                                            overrides=plan, npayload=npayload))
    for adj in sh:
        n = len(adj)
        if n < 2:
            continue
        for bad in range(n):
            for roots in ([0], [0, n - 1]):
                for retries in ([0, 0], [1, 0], [1, 1]):
                    out.append(dict(t="failing", adj=adj, roots=roots, raising=bad, retries=retries))
    out.append(dict(t="declarations"))
    return out


def jobs(tier):
    cs = cases(tier)
    n = 120
    return [dict(cases=cs[i:i + n]) for i in range(0, len(cs), n)]


def run_job(job):
    acc = Acc()
    loop = None
    for case in job["cases"]:
        if case["t"] == "direct":
            if loop is None:
                loop = asyncio.new_event_loop()
                asyncio.set_event_loop(loop)
            viol, outs = run_direct(case)
            acc.executions += 2
        elif case["t"] == "failing":
            if loop is not None:
                loop.close()
                asyncio.set_event_loop(None)
                loop = None
            viol, outs, handles = run_failing(case)
            acc.handles += handles
            acc.executions += 1
        else:
            viol, n = run_declarations()
            outs = n
            acc.executions += n
        acc.choice_points += 1
        acc.phases[case["t"]] += 1
        acc.outcomes.add(digest([case, outs]))
        seen = set()
        for sig, what in viol:
            if sig in seen:
                continue
            seen.add(sig)
            acc.violations.append(dict(signature=f"{case['t']} {sig}", what=what, job=dict(cases=[case])))
        if len(acc.samples) < 2 and case["t"] == "direct" and case["overrides"]:
            acc.samples.append(dict(case=case, received=outs))
    if loop is not None:
        loop.close()
        asyncio.set_event_loop(None)
    return acc.to_dict()
