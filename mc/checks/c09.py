"""C09 - Concurrency never exceeds tasks_limit and the worker never stalls.

Matrix tasks_limit x queues x all duration assignments x failure pattern x arrival pattern x
broker; plus a sweep of the enqueue instant of one extra message over every loop iteration of the
window in which slots free up.  The actor spy records entries and exits; the monitor is evaluated
on the complete entry/exit log (every instant).
"""
import asyncio
import itertools

from repid import MessageDependency
from repid.converter import BasicConverter

from ..explore import Acc, digest
from ..harness import actor_log
from ..scenario import fixed_policy, run_worker
from ..vloop import NS

ID = "C09"
LEVEL = "model_checking"
RULE = ("full product of tasks_limit x number of queues x every assignment of durations {0, 5, 10, 15 ms} to 3-4 "
        "messages x failure pattern x arrival pattern x broker, and the enqueue instant of a late message swept over "
        "every loop iteration of the saturated window; distinct = distinct (cell, start/end schedule)")
ASSUMPTIONS = [
    "Redis / RabbitMQ replaced by in-process models",
    "liveness as bounded response: every job executed by sum(durations)/limit + allowance, next start within 0.5 s "
    "of a slot becoming free while a message is deliverable",
]

DURS = [0.0, 0.005, 0.010, 0.015]
ALLOW = {"mem": 0.15, "redis": 2.0, "amqp": 1.0}


def cells(tier):
    out = []
    for kind in ("mem", "redis", "amqp"):
        nmsg = 4 if (kind == "mem" or tier == "thorough") else 3
        for L in (1, 2, 3):
            for nq in (1, 2):
                for fail in (None, 1, "cancelled"):
                    for arrival in ("before", "burst"):
                        if tier == "quick" and kind != "mem" and (nq == 2 and arrival == "burst"):
                            continue
                        for assign in itertools.product(range(len(DURS)), repeat=nmsg):
                            out.append(dict(kind=kind, L=L, nq=nq, fail=fail, arrival=arrival, assign=list(assign)))
        # five messages on two queues: each consumer's window holds more than it can start at once
        # (RabbitMQ: deliveries to a paused consumer are sent back after 100 ms)
        for L in (1, 2):
            for assign in itertools.product((1, 2), repeat=5):
                out.append(dict(kind=kind, L=L, nq=2, fail=None, arrival="before", assign=list(assign)))
        # a broker fault outside the actor (the k-th ack raises): the slot of that task has to come back
        # (RabbitMQ: the delivery whose ack failed stays unacknowledged and keeps its place in the
        # consumer's prefetch window of L, so at least a window of two is needed to go on)
        for L in (1, 2) if kind != "amqp" else (2, 3):
            for k in (0, 1, 2):
                out.append(dict(kind=kind, L=L, nq=1, fail=None, arrival="before", assign=[1, 1, 1, 1], fault=["ack", k]))
    return out


def execute(cell, late_at=None, cancel_at=None):
    kind = cell["kind"]
    durs = [DURS[i] for i in cell["assign"]]
    n = len(durs)
    queues = ["q", "q2"][: cell["nq"]]
    total = sum(durs) * (2 if cell["fail"] is not None else 1)
    # a zero back-off retry still goes through the delayed queue (refreshed once per second in memory,
    # whole-second scores on Redis)
    horizon = total / cell["L"] + ALLOW[kind] + (1.6 if cell["fail"] is not None else 0) + 0.05
    extra = late_at is not None

    def build(x, worker):
        w = x.world
        seen = set()

        async def job(i: int, m: MessageDependency):
            mid = m.key.id_
            first = mid not in seen
            seen.add(mid)
            actor_log(w, mid, "start")
            try:
                await asyncio.sleep(durs[i] if i < n else 0.004)
            finally:
                actor_log(w, mid, "end")
            if cell["fail"] == i and first:
                raise ValueError("first attempt fails")
            if cell["fail"] == "cancelled" and i == 1:
                # the invocation ends in the cancelled state although nobody stops the worker
                # (e.g. the actor awaited something that had been cancelled)
                raise asyncio.CancelledError()

        for q in queues:
            worker.actor(job, name=f"job_{q}", queue=q, converter=BasicConverter, retry_policy=fixed_policy(0.0))

    def msg(i):
        q = queues[i % len(queues)]
        return dict(id=f"m{i}", topic=f"job_{q}", queue=q, payload='{"i":%d}' % i,
                    params=lambda w: w.params(retries=1, timeout=50.0))

    # "tail": the worker is saturated by queue q alone; the last message of q arrives 2 ms after the
    # first job has finished (the swept extra message goes to q2 and lands around that finish)
    used = list(range(n)) if cell["arrival"] != "tail" else list(range(0, n, 2))
    msgs = [msg(i) for i in used] if cell["arrival"] == "before" else [msg(i) for i in used[:-1]] if cell["arrival"] == "tail" else []

    async def during(x):
        w = x.world
        if cell["arrival"] == "burst":
            await asyncio.sleep(0.002)
            first = msg(0)
            await w.broker.enqueue(w.key(first["id"], first["topic"], first["queue"]), first["payload"], first["params"](w))
            await asyncio.sleep(0.003)
            for i in range(1, n):
                m_ = msg(i)
                await w.broker.enqueue(w.key(m_["id"], m_["topic"], m_["queue"]), m_["payload"], m_["params"](w))
        if cell["arrival"] == "tail":
            await asyncio.sleep(durs[0] + 0.002)
            m_ = msg(used[-1])
            await w.broker.enqueue(w.key(m_["id"], m_["topic"], m_["queue"]), m_["payload"], m_["params"](w))

    def inject(x):
        if extra:
            def put():
                m_ = msg(n)
                asyncio.ensure_future(x.world.broker.enqueue(
                    x.world.key(m_["id"], m_["topic"], m_["queue"]), m_["payload"], m_["params"](x.world)), loop=x.loop)
            x.at_iteration(late_at, put)
        if cancel_at is not None:
            def server_cancel():
                # RabbitMQ cancels the consumer server-side (queue failover): the client has to restart it
                for c in x.world.server.consumers:
                    if c["active"]:
                        c["chan"].server_cancel(c["tag"])
                        break
            x.at_iteration(cancel_at, server_cancel)

    res = run_worker(kind, build=build, messages=msgs, queues=queues, stop_at=horizon, during=during, inject=inject,
                     fail_calls=[cell["fault"]] if cell.get("fault") else None,
                     worker_kw=dict(tasks_limit=cell["L"], graceful_shutdown_time=0.2), max_iters=1_000_000, settle=0.3)
    viol = []
    if res.status != "ok":
        viol.append(("worker-died", f"Worker.run() ended with {res.status}: {res.value!r}"))
    evs = [(r[0], r[2], r[3]) for r in res.log if r[1] == "actor" and r[2] in ("start", "end")]
    running = 0
    peak = 0
    for t, ev, mid in evs:
        running += 1 if ev == "start" else -1
        peak = max(peak, running)
        if running > cell["L"]:
            viol.append(("limit-exceeded", f"{running} actor bodies in progress at {t / NS:.4f}s with tasks_limit={cell['L']}"))
            break
    if cell["arrival"] == "before" and cell["fail"] is None and not extra:
        # all messages are deliverable from the start: whenever a slot frees while some have not
        # been started yet, the next one starts within 0.5 s
        started = set()
        for idx, (t, ev, mid) in enumerate(evs):
            if ev == "start":
                started.add(mid)
            elif len(started) < n:
                nxt = next((t2 for t2, ev2, _ in evs[idx + 1:] if ev2 == "start"), None)
                if nxt is None or nxt - t > round(0.5 * NS):
                    viol.append(("slot-idle", f"a slot became free at {t / NS:.4f}s with {n - len(started)} messages waiting, "
                                              f"the next actor started {'never' if nxt is None else '%.3fs later' % ((nxt - t) / NS)}"))
                    break
    # an invocation that ends cancelled is a failed execution: retried once (retries=1), like job `fail`
    want_runs = {f"m{i}": (2 if cell["fail"] == i or (cell["fail"] == "cancelled" and i == 1) else 1) for i in used}
    if extra:
        enq = [r[0] for r in res.log if r[1] == "call" and r[2] == "enqueue" and r[3] == f"m{n}"]
        if enq and res.stop_ns is not None and enq[0] <= res.stop_ns - round((ALLOW[kind] + 0.03) * NS):
            want_runs[f"m{n}"] = 1  # arrived early enough to be expected before the stop
    ends = {}
    for t, ev, mid in evs:
        if ev == "end":
            ends[mid] = ends.get(mid, 0) + 1
    stop_t = res.stop_ns
    missing = {m: want_runs[m] - ends.get(m, 0) for m in want_runs if ends.get(m, 0) < want_runs[m]}
    if missing:
        viol.append(("stalled", f"not every job was executed within {horizon:.3f}s (tasks_limit={cell['L']}): missing runs {missing}; "
                                f"places {[(k, [e['place'] for e in v]) for k, v in res.obs.items() if not k.startswith('__')]}"))
    if any(ends.get(m, 0) > want_runs[m] for m in want_runs if not (extra and m == f"m{n}")):
        viol.append(("extra-runs", f"jobs ran more often than expected: {ends} vs {want_runs}"))
    summary = dict(peak=peak, schedule=[(round(t / NS, 4), ev[0], mid) for t, ev, mid in evs][:24])
    return res, viol, summary


def jobs(tier):
    cs = cells(tier)
    cs.sort(key=lambda c: (c["kind"] != "redis", c["kind"]))
    n = 40
    out = [dict(cells=cs[i:i + n]) for i in range(0, len(cs), n)]
    # sweep: a late message arrives at every iteration of the saturated window
    for kind in ("mem", "redis", "amqp"):
        for L in (1, 2):
            cell = dict(kind=kind, L=L, nq=1, fail=None, arrival="before", assign=[2, 2, 1])
            base, _, _ = execute(cell)
            ks = list(range(0, base.iters))
            for lo in range(0, len(ks), 50):
                out.append(dict(sweep=cell, ks=ks[lo:lo + 50]))
            # two queues: a message for the second queue arrives while the first queue saturates the
            # worker (every iteration, so also while its consumer is being paused and a slot frees up),
            # and the first queue gets one more message afterwards
            n = 2 * L + 1
            cell = dict(kind=kind, L=L, nq=2, fail=None, arrival="tail",
                        assign=[2 if i in (0, n - 1) else 3 for i in range(n)])
            base, _, _ = execute(cell)
            ks = list(range(0, base.iters))
            for lo in range(0, len(ks), 50):
                out.append(dict(sweep=cell, ks=ks[lo:lo + 50]))
    # RabbitMQ cancels the worker's consumer at every iteration
    for L in (1, 2):
        cell = dict(kind="amqp", L=L, nq=1, fail=None, arrival="before", assign=[2, 2, 1])
        base, _, _ = execute(cell)
        ks = list(range(0, base.iters))
        for lo in range(0, len(ks), 50):
            out.append(dict(sweep=cell, ks=ks[lo:lo + 50], what="cancel"))
    return out


def run_job(job):
    acc = Acc()
    todo = [(c, None) for c in job.get("cells", [])] + [(job["sweep"], k) for k in job.get("ks", [])]
    for cell, k in todo:
        if job.get("what") == "cancel":
            res, viol, summary = execute(cell, None, k)
        else:
            res, viol, summary = execute(cell, k)
        acc.executions += 1
        acc.handles += res.handles
        acc.choice_points += 1
        acc.outcomes.add(digest([cell, k is not None, job.get("what"), summary]))
        acc.phases[("server-cancel" if job.get("what") else "sweep" if k is not None else cell["arrival"]) + f":peak={summary['peak']}/L={cell['L']}"] += 1
        for sig, what in viol:
            acc.violations.append(dict(
                signature=f"{cell['kind']} {sig}",
                what=what + f" [cell {cell}, {'consumer cancelled by the server' if job.get('what') else 'late message'} at iteration {k}]",
                job=dict(cells=[cell]) if k is None else dict(sweep=cell, ks=[k], what=job.get("what")),
                detail=summary,
            ))
        if len(acc.samples) < 2:
            acc.samples.append(dict(cell=cell, late_at=k, observed=summary))
    return acc.to_dict()
