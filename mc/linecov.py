"""Development aid: which lines of repid do the checks execute?  Enabled by MC_COVER=<dir>; every
process records the lines of /repo/repid it executed (sys.monitoring, each line reported once) and
writes them to <dir>/<pid>.json when a job ends.  tools/repo_coverage.sh prints the report."""
import json
import os
import sys

_DIR = os.environ.get("MC_COVER")
_seen: set = set()
_on = False
PREFIX = "/repo/repid/"


def start() -> None:
    global _on
    if not _DIR or _on:
        return
    _on = True
    mon = sys.monitoring
    tool = mon.COVERAGE_ID
    try:
        mon.use_tool_id(tool, "mc-linecov")
    except ValueError:
        pass

    def line(code, lineno):
        if code.co_filename.startswith(PREFIX):
            _seen.add((code.co_filename, lineno))
        return mon.DISABLE

    mon.register_callback(tool, mon.events.LINE, line)
    mon.set_events(tool, mon.events.LINE)


def dump() -> None:
    if not _DIR or not _on:
        return
    path = os.path.join(_DIR, f"{os.getpid()}.json")
    with open(path + ".tmp", "w") as f:
        json.dump(sorted(_seen), f)
    os.replace(path + ".tmp", path)


def report(directory: str) -> str:
    import glob

    seen = set()
    for p in glob.glob(os.path.join(directory, "*.json")):
        for fn, ln in json.load(open(p)):
            seen.add((fn, ln))
    out = []
    tot = hit = 0
    for root, _, files in os.walk(PREFIX):
        for name in sorted(files):
            if not name.endswith(".py"):
                continue
            fn = os.path.join(root, name)
            lines = set()

            def walk(code):
                # function bodies only: module and class bodies run at import time, before recording starts
                if code.co_flags & 0x1:
                    for _, _, ln in code.co_lines():
                        if ln and ln != code.co_firstlineno:
                            lines.add(ln)
                for c in code.co_consts:
                    if hasattr(c, "co_lines"):
                        walk(c)

            walk(compile(open(fn).read(), fn, "exec"))
            miss = sorted(ln for ln in lines if (fn, ln) not in seen)
            tot += len(lines)
            hit += len(lines) - len(miss)
            # compress
            rng = []
            for ln in miss:
                if rng and ln == rng[-1][1] + 1:
                    rng[-1][1] = ln
                else:
                    rng.append([ln, ln])
            out.append(f"{fn[len(PREFIX):]:55s} {len(lines) - len(miss):4d}/{len(lines):4d}  "
                       + ",".join(f"{a}" if a == b else f"{a}-{b}" for a, b in rng))
    out.append(f"TOTAL {hit}/{tot}")
    return "\n".join(out)


if __name__ == "__main__":
    print(report(sys.argv[1]))
