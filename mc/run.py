"""Runner: ./check <ID> <quick|thorough> [--replay FILE]

exit 0  property held on everything explored (known findings are printed, not failed)
exit 1  at least one violation not listed in known_findings.json (VIOLATION lines on stdout)
exit 2  harness error (non-determinism not owned, crash in the machinery) - never a verdict
"""
from __future__ import annotations

import importlib
import json
import os
import sys
import time

ROOT = os.path.dirname(os.path.dirname(os.path.abspath(__file__)))
# development aid (tools/mutate.py runs many trees in parallel): where evidence and replays are written
OUT = os.environ.get("MC_OUT") or ROOT
_perf = time.perf_counter


def load_findings():
    path = os.path.join(ROOT, "known_findings.json")
    if not os.path.exists(path):
        return []
    with open(path) as f:
        data = json.load(f)
    return data.get("findings", [])


def main(argv=None) -> int:
    argv = list(sys.argv[1:] if argv is None else argv)
    if not argv:
        print(__doc__)
        return 2
    pid = argv[0].upper()
    replay = None
    tier = os.environ.get("VERIF_TIER") or "quick"
    rest = argv[1:]
    while rest:
        a = rest.pop(0)
        if a == "--replay":
            replay = rest.pop(0)
        elif a in ("quick", "thorough"):
            tier = a
    if tier not in ("quick", "thorough"):
        tier = "quick"
    seed = int(os.environ.get("VERIF_SEED", "0") or 0)

    from . import explore, selftest, vloop

    vloop.install_seams()
    mod = importlib.import_module(f"mc.checks.{pid.lower()}")

    if replay:
        return do_replay(mod, pid, replay)

    t0 = _perf()
    selftest.run_quick()

    if hasattr(mod, "drive"):
        # level-synchronous searches drive their own fan-out
        jobs = []
        acc = mod.drive(tier, seed)
    else:
        jobs = mod.jobs(tier)
        # the seed rotates the partition order only; it never changes what is enumerated
        if jobs:
            r = seed % len(jobs)
            jobs = jobs[r:] + jobs[:r]
        results = explore.pmap(mod.__name__, "run_job", jobs, fresh=getattr(mod, "FRESH_PROCESS_PER_JOB", False))
        acc = explore.Acc.merge(results)

    known = [k for k in load_findings() if k.get("property") == pid]
    by_sig: dict[str, list] = {}
    for v in acc.violations:
        by_sig.setdefault(v["signature"], []).append(v)

    new = []
    known_hit = []
    for sig in sorted(by_sig):
        vs = by_sig[sig]
        k = next((k for k in known if k["signature"] == sig), None)
        if k is not None:
            known_hit.append((k, len(vs)))
        else:
            new.append((sig, vs))

    exit_code = 0
    os.makedirs(os.path.join(OUT, "replays"), exist_ok=True)
    for k, n in known_hit:
        print(f"KNOWN-FINDING: property={pid} {k['what']} [{n} executions; signature={k['signature']}]")
    for sig, vs in new:
        v = min(vs, key=lambda x: len(json.dumps(x["job"], default=str)))
        # determinism gate: the same execution must give the same verdict twice
        sigs = []
        for _ in range(2):
            r = mod.run_job(v["job"])
            sigs.append(sorted({x["signature"] for x in r["violations"]}))
        if sigs[0] != sigs[1] or sig not in sigs[0]:
            sys.stderr.write(
                f"HARNESS-ERROR: violation {sig!r} does not replay deterministically: {sigs}\n"
            )
            return 2
        path = os.path.join(OUT, "replays", f"{pid}-{explore.digest(sig)}.json")
        with open(path, "w") as f:
            json.dump(
                dict(property=pid, signature=sig, what=v["what"], job=v["job"], detail=v.get("detail"),
                     count=len(vs)),
                f, indent=1, default=str, sort_keys=True,
            )
        print(f"VIOLATION property={pid} replay={path}")
        print(f"  {v['what']} [{len(vs)} executions; signature={sig}]")
        exit_code = 1

    cov = mod.coverage(acc, tier) if hasattr(mod, "coverage") else {}
    n_out = len(acc.outcomes)
    coverage = dict(
        states=max(n_out, 1),
        transitions=max(acc.choice_points or acc.handles, 1),
        traces_validated_against_impl=acc.executions,
        evaluations=acc.executions,
        distinct_nontrivial=n_out,
        rule=getattr(mod, "RULE", ""),
        samples=acc.samples[:5] or [{"jobs": len(jobs)}],
        schedules=acc.executions,
        handles_executed=acc.handles,
        distinct_outcomes=n_out,
        phase_hits=dict(sorted(acc.phases.items())),
        caps_hit=acc.caps,
        exhaustive=not acc.caps,
        known_findings_hit={k["signature"]: n for k, n in known_hit},
        jobs=len(jobs),
    )
    coverage.update(cov)
    for k, v in sorted(acc.extra.items()):
        coverage.setdefault(k, v)
    ev = dict(
        property_id=pid,
        tier=tier,
        seed=seed,
        level=getattr(mod, "LEVEL", "model_checking"),
        coverage=coverage,
        assumptions=list(getattr(mod, "ASSUMPTIONS", [])),
        wall_s=round(_perf() - t0, 2),
        violations=len(new),
    )
    os.makedirs(os.path.join(OUT, "evidence"), exist_ok=True)
    with open(os.path.join(OUT, "evidence", f"{pid}.json"), "w") as f:
        json.dump(ev, f, indent=1, default=str, sort_keys=True)
    gaps = [p for p in getattr(mod, "EXPECTED_PHASES", {}).get(tier, []) if not acc.phases.get(p)]
    if gaps:
        sys.stderr.write(f"HARNESS-ERROR: coverage gap, phases never hit: {gaps}\n")
        return 2
    print(
        f"{pid} {tier}: executions={acc.executions} handles={acc.handles} "
        f"choice_points={acc.choice_points} distinct_outcomes={n_out} "
        f"known={sum(n for _, n in known_hit)} new_violations={len(new)} wall={ev['wall_s']}s"
    )
    return exit_code


def do_replay(mod, pid, path) -> int:
    with open(path) as f:
        rec = json.load(f)
    job = rec["job"]
    outs = []
    for _ in range(2):
        r = mod.run_job(job)
        outs.append(sorted({x["signature"] for x in r["violations"]}))
    if outs[0] != outs[1]:
        sys.stderr.write(f"HARNESS-ERROR: replay not deterministic: {outs}\n")
        return 2
    r = mod.run_job(job)
    if not r["violations"]:
        print(f"replay: property {pid} holds on this execution")
        return 0
    known = {k["signature"] for k in load_findings() if k.get("property") == pid}
    code = 0
    for v in r["violations"]:
        if v["signature"] in known:
            print(f"KNOWN-FINDING: property={pid} {v['what']}")
        else:
            print(f"VIOLATION property={pid} replay={path}")
            print(f"  {v['what']}")
            code = 1
        if v.get("detail"):
            print(json.dumps(v["detail"], indent=1, default=str)[:4000])
    return code


if __name__ == "__main__":
    sys.exit(main())
