"""C16 - Message handles are single-use and respect their category.

Part A: every sequence of message-API calls (ack, nack, reject, reschedule, retry, force_retry) up
to a length bound on a Message obtained from Queue.get_messages, for each category and retry
state, with a spy on the broker boundary.
Part B: inside an actor, every sequence over {add_callback, set_result, set_exception} followed by
every eager response and trailing code.
"""
import asyncio
import itertools
from datetime import datetime

from repid import MessageDependency, Queue
from repid.converter import BasicConverter
from repid.message import MessageCategory

from ..explore import Acc, digest
from ..harness import Exec, actor_log
from ..scenario import fixed_policy, run_worker
from ..vloop import CLOCK

ID = "C16"
LEVEL = "model_checking"
RULE = ("A: all call sequences up to length 3 (4 thorough) over 6 message-API actions x 3 categories x 3 retry states "
        "x broker; B: all sequences up to length 3 (4) over {callback, raising callback, set_result, set_exception} x 6 eager "
        "actions x retry state; distinct = distinct (case, exceptions raised, broker calls, callback order)")
ASSUMPTIONS = ["Redis / RabbitMQ replaced by in-process models (part A thorough; part A quick and part B in-memory)"]

ACTIONS = ["ack", "nack", "reject", "reschedule", "retry", "force_retry"]
CATS = ["NORMAL", "DELAYED", "DEAD"]
RETRY_STATES = {"left": (1, 0), "spent": (1, 1), "none": (0, 0), "over": (1, 2)}  # over: above the budget after forced retries
# cb0: a callback (sync at odd positions, async at even ones); cbx: the same, but it raises after having logged
PRE = ["cb0", "cbx", "sr", "se"]


class CallbackError(Exception):
    pass


def cases(tier):
    out = []
    la = 3 if tier == "quick" else 4
    kinds = ["mem", "redis", "amqp"]
    for kind in kinds:
        for cat in CATS:
            for rs in RETRY_STATES:
                for n in range(1, la + 1):
                    if kind != "mem" and n > 3:
                        continue
                    for seq in itertools.product(ACTIONS, repeat=n):
                        out.append(dict(part="A", kind=kind, cat=cat, rs=rs, seq=list(seq)))
    lb = 3 if tier == "quick" else 4
    for rs in RETRY_STATES:
        for n in range(0, lb + 1):
            for pre in itertools.product(PRE, repeat=n):
                for eager in ACTIONS:
                    out.append(dict(part="B", kind="mem", rs=rs, pre=list(pre), eager=eager))
    return out


def run_a(case):
    kind = case["kind"]
    x = Exec(kind)
    w = x.world
    viol = []
    trace = []
    mx, tried = RETRY_STATES[case["rs"]]
    cat = case["cat"]
    try:
        async def main():
            await w.connect()
            await w.broker.queue_declare("q")
            key = w.key("m0", "job", "q", 9)
            p = w.params(retries=mx, tried=tried, next_in=50.0 if cat == "DELAYED" else None)
            await w.broker.enqueue(key, "pay", p)
            if cat == "DEAD":
                c = w.broker.get_consumer("q", None, None, MessageCategory.NORMAL)
                await c.start()
                k, _, _ = await c.consume()
                await w.broker.nack(k)
                await c.finish()
            q = Queue("q", _connection=w.conn)
            agen = q.get_messages(category=MessageCategory[cat])
            msg = await asyncio.wait_for(agen.__anext__(), 3.0)
            mark = len(x.log)
            done = False
            for a in case["seq"]:
                before = len([r for r in x.log[mark:] if r[1] == "call" and r[7] == 0])
                try:
                    await getattr(msg, a)()
                    exc = None
                except ValueError as e:
                    exc = "ValueError"
                except Exception as e:  # noqa: BLE001
                    exc = type(e).__name__
                calls = [(r[2], r[5]["tried"] if r[5] else None) for r in x.log[mark:] if r[1] == "call" and r[7] == 0][before:]
                trace.append([a, exc, calls])
                # model
                if a in ("nack", "retry", "force_retry") and cat != "NORMAL":
                    want = ("ValueError", [])
                elif done:
                    want = ("ValueError", [])
                elif a == "retry" and tried >= mx:
                    want = ("ValueError", [])
                else:
                    kind_ = {"ack": "ack", "nack": "nack", "reject": "reject"}.get(a, "requeue")
                    cnt = None
                    if a == "reschedule":
                        cnt = 0
                    elif a in ("retry", "force_retry"):
                        cnt = tried + 1
                    want = (None, [(kind_, cnt)])
                    done = True
                if exc is None and a in ("retry", "force_retry") and not viol:
                    # a retry asked for through a plain handle, without a delay, is due at once
                    rq = [r for r in x.log[mark:] if r[1] == "call" and r[7] == 0 and r[2] == "requeue"][-1:]
                    nxt = rq[0][5]["next"] if rq and rq[0][5] else None
                    off = None if nxt is None else (datetime.fromisoformat(nxt) - CLOCK.now()).total_seconds()
                    if off is None or abs(off) > 0.001:
                        viol.append(("retry-delay", f"{a}() without a delay re-queued the message with next execution "
                                                    f"{'unset' if off is None else '%+.3fs from now' % off}"))
                        break
                if (exc, calls) != want:
                    viol.append(("api", f"{a} (step {len(trace)} of {case['seq']}, category {cat}, retries {mx}/{tried}) -> "
                                        f"exception {exc}, broker calls {calls}; expected exception {want[0]}, calls {want[1]}"))
                    break
            if not done and not viol:
                before = len([r for r in x.log[mark:] if r[1] == "call" and r[7] == 0])
                try:
                    await msg.ack()
                    exc = None
                except Exception as e:  # noqa: BLE001
                    exc = type(e).__name__
                calls = [r[2] for r in x.log[mark:] if r[1] == "call" and r[7] == 0][before:]
                trace.append(["final-ack", exc, calls])
                if exc is not None or calls != ["ack"]:
                    viol.append(("unusable", f"after the refused calls {case['seq']} the handle is not usable: ack -> {exc}, calls {calls}"))
                if not msg.read_only:
                    viol.append(("api", "read_only is False after a successful ack"))
            await agen.aclose()

        st, v = x.run(main(), max_iters=100_000)
        if st != "ok":
            viol.append(("harness-case", f"case ended with {st}: {v!r}"))
        handles = x.loop.handles
    finally:
        x.close()
    return handles, viol, trace


def run_b(case):
    mx, tried = RETRY_STATES[case["rs"]]
    eager = case["eager"]
    pre = case["pre"]

    def build(x, worker):
        w = x.world

        seen = []

        async def job(m: MessageDependency):
            mid = m.key.id_
            if seen:
                actor_log(w, mid, "redelivered")
                await asyncio.sleep(3600)
            seen.append(1)
            actor_log(w, mid, "start")
            for i, step in enumerate(pre):
                if step.startswith("cb"):
                    tag = f"{step}@{i}"
                    if i % 2:
                        def scb(tag=tag, bad=step == "cbx"):
                            actor_log(w, mid, "callback", tag)
                            if bad:
                                raise CallbackError(tag)
                        m.add_callback(scb)
                    else:
                        async def acb(tag=tag, bad=step == "cbx"):
                            await asyncio.sleep(0)
                            actor_log(w, mid, "callback", tag)
                            if bad:
                                raise CallbackError(tag)
                        m.add_callback(acb)
                elif step == "sr":
                    m.set_result({"v": i})
                else:
                    m.set_exception(KeyError(f"e{i}"))
            actor_log(w, mid, "eager")
            await getattr(m, eager)()
            actor_log(w, mid, "trailing-code-ran")

        worker.actor(job, name="job", queue="q", converter=BasicConverter, retry_policy=fixed_policy(100.0))

    msgs = [dict(id="m0", topic="job", payload="", params=lambda w: w.params(retries=mx, tried=tried, result="r0", timeout=5.0))]
    res = run_worker("mem", build=build, messages=msgs, buckets="results", stop_at=0.05,
                     worker_kw=dict(graceful_shutdown_time=0.1))
    viol = []
    refused = eager == "retry" and tried >= mx
    order = []
    cut = next((k for k, r in enumerate(res.log) if r[1] == "actor" and r[2] == "redelivered"), len(res.log))
    res.log = res.log[:cut]  # only the first delivery
    for r in res.log:
        if r[1] == "actor" and r[2] == "callback":
            order.append(r[4])
        elif r[1] == "bucket" and r[2] == "store_bucket":
            order.append("store:" + ("ok" if r[5]["success"] else "exc"))
    calls = [(r[2], r[5]["tried"] if r[5] else None) for r in res.log if r[1] == "call" and r[7] == 0 and r[2] != "enqueue"]
    evs = [r[2] for r in res.actor_events("m0")]
    if "trailing-code-ran" in evs:
        viol.append(("trailing-code", f"code after {eager}() ran"))
    if not refused:
        # expected order: callbacks in registration order, the store where the latest set_* was called
        cbs = [f"{s}@{i}" for i, s in enumerate(pre) if s.startswith("cb")]
        sets = [(i, s) for i, s in enumerate(pre) if s in ("sr", "se")]
        want = list(cbs)
        if sets:
            i_last, s_last = sets[-1]
            pos = len([c for k, c in enumerate(pre[:i_last]) if c.startswith("cb")])
            want.insert(pos, "store:" + ("ok" if s_last == "sr" else "exc"))
        if order != want:
            viol.append(("callback-order", f"after {pre} + {eager}(): executions {order}, expected {want}"))
        # "after an eager response": nothing of that runs before the broker call of the response has returned
        ret_at = next((k for k, r in enumerate(res.log) if r[1] == "ret" and r[3] == "m0"
                       and r[2] in ("ack", "nack", "reject", "requeue")), None)
        first_cb = next((k for k, r in enumerate(res.log) if (r[1] == "actor" and r[2] == "callback")
                         or (r[1] == "bucket" and r[2] == "store_bucket")), None)
        if first_cb is not None and (ret_at is None or first_cb < ret_at):
            viol.append(("callback-before-response", f"after {pre} + {eager}(): a callback / the result store ran before the "
                                                     f"response had reached the broker"))
        kind_ = {"ack": "ack", "nack": "nack", "reject": "reject"}.get(eager, "requeue")
        cnt = 0 if eager == "reschedule" else (tried + 1 if eager in ("retry", "force_retry") else None)
        first = calls[:1]
        if first != [(kind_, cnt)]:
            viol.append(("eager-call", f"{eager}() caused broker calls {calls}, expected first {(kind_, cnt)}"))
        # nothing more for this delivery (a reject puts the message back: later deliveries are separate)
        if len(calls) != 1:
            viol.append(("extra-calls", f"{eager}() was followed by further broker calls: {calls}"))
    else:
        if [o for o in order if not o.startswith("store:")]:
            viol.append(("callback-order", f"retry() was refused but callbacks ran: {order[:3]}"))
    summary = dict(order=order, calls=calls[:3], events=evs[:6])
    return res.handles, viol, summary


def jobs(tier):
    cs = cases(tier)
    n = 60
    return [dict(cases=cs[i:i + n]) for i in range(0, len(cs), n)]


def run_job(job):
    acc = Acc()
    for case in job["cases"]:
        if case["part"] == "A":
            handles, viol, trace = run_a(case)
        else:
            handles, viol, trace = run_b(case)
        acc.executions += 1
        acc.handles += handles
        acc.choice_points += len(case.get("seq", case.get("pre", []))) + 1
        acc.outcomes.add(digest([case, trace]))
        acc.phases[case["part"]] += 1
        for sig, what in viol:
            acc.violations.append(dict(
                signature=f"{case['kind']} {case['part']} {sig}",
                what=what + f" [case {case}]",
                job=dict(cases=[case]),
                detail=trace,
            ))
        if len(acc.samples) < 3 and len(case.get("seq", case.get("pre", []))) >= 2:
            acc.samples.append(dict(case=case, observed=trace))
    return acc.to_dict()
