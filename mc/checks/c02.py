"""C02 - Every delivery ends in exactly one, correct disposition.

Exhaustive scenario matrix; each cell is one deterministic Worker.run() of the real code
under the virtual loop with a spy on the broker boundary (ack / nack / reject / requeue).
"""


import asyncio
import itertools
import sys
from typing import Annotated

from repid import Depends, MessageDependency
from repid.converter import BasicConverter, PydanticConverter

from ..explore import Acc, digest
from ..harness import actor_log
from ..models import lifecycle
from ..scenario import fixed_policy, run_worker

ID = "C02"
LEVEL = "model_checking"
RULE = ("full product of actor behaviour x retry budget x attempts made x recurring x result storing x converter "
        "(x broker in the thorough tier), plus all ordered pairs of behaviours run concurrently with a bystander; "
        "distinct = distinct (cell, observed call sequence, final place)")
ASSUMPTIONS = [
    "Redis / RabbitMQ replaced by in-process models (thorough tier)",
    "cron recurrences not covered (croniter not installed); defer_by recurrences are",
]

TIMEOUT = 0.05


class CustomError(Exception):
    pass


EAGER = ["ack", "nack", "reject", "reschedule", "retry", "force_retry"]
EAGER_MODS = ["plain", "set_result", "set_exception", "callback", "raising_callback"]
BEHAVIOURS = (
    ["return", "raise_value", "raise_custom", "timeout", "bad_json", "bad_args", "dep_raises", "bad_return", "raise_cancelled"]
    + [f"{e}/{m}" for e in EAGER for m in EAGER_MODS]
)


def provider_ok():
    return "dep"


def provider_raises():
    raise RuntimeError("provider failed")


def make_actors(x, worker, converter):
    w = x.world

    seen = set()

    async def job(i: int, b: str, m: MessageDependency, d: Annotated[str, Depends(provider_ok)]):
        mid = m.key.id_
        if mid in seen:
            # a later delivery of the same message (after reject / zero back-off): park it, the
            # cell is about the first delivery
            actor_log(w, mid, "redelivered")
            await asyncio.sleep(3600)
        seen.add(mid)
        actor_log(w, mid, "start")
        if b == "return":
            await asyncio.sleep(0.005)
            actor_log(w, mid, "ok")
            return {"i": i}
        if b == "raise_value":
            await asyncio.sleep(0.005)
            actor_log(w, mid, "fail")
            raise ValueError("boom")
        if b == "raise_custom":
            actor_log(w, mid, "fail")
            raise CustomError("custom")
        if b == "raise_cancelled":
            actor_log(w, mid, "fail")
            # ends in the cancelled state although nobody cancels the processing (e.g. the actor
            # awaited something that had been cancelled): a failed execution like any other
            raise asyncio.CancelledError()
        if b == "bad_return":
            actor_log(w, mid, "fail")
            return object()  # finishes normally, but the converter cannot encode the value: a failed execution
        if b == "timeout":
            try:
                await asyncio.sleep(10 * TIMEOUT)
            except asyncio.CancelledError:
                actor_log(w, mid, "fail")
                raise
            actor_log(w, mid, "overran")
            return None
        eager, mod = b.split("/")
        if mod == "set_result":
            m.set_result({"early": i})
        elif mod == "set_exception":
            m.set_exception(KeyError("early"))
        elif mod == "callback":
            m.add_callback(lambda: actor_log(w, mid, "callback"))
        elif mod == "raising_callback":
            def bad():
                actor_log(w, mid, "callback")
                raise OSError("callback failed")
            m.add_callback(bad)
        actor_log(w, mid, "eager:" + eager)
        await getattr(m, eager)()
        actor_log(w, mid, "trailing-code-ran")
        return "never"

    async def job_dep(i: int, b: str, d: Annotated[str, Depends(provider_raises)]):
        actor_log(w, f"?{i}", "body-entered-despite-provider-failure")
        return None

    pol = fixed_policy(0.0 if getattr(make_actors, "zero_backoff", False) else 100.0)
    worker.actor(job, name="job", queue="q", converter=converter, retry_policy=pol)
    worker.actor(job_dep, name="job_dep", queue="q", converter=converter, retry_policy=pol)


def expected(b, p0, store):
    """(expected top-level call kinds, expected rest stage) for behaviour b on parameters p0."""
    if "/" not in b:
        ok = b == "return"
        d = lifecycle.disposition(p0, ok)
    else:
        eager, mod = b.split("/")
        if mod in ("set_result", "set_exception") and not store:
            # set_result/set_exception raise ValueError inside the actor: an ordinary failure
            d = lifecycle.disposition(p0, False)
        elif eager == "retry" and p0["tried"] >= p0["max"]:
            d = lifecycle.disposition(p0, False)  # retry() refuses: ordinary failure
        else:
            d = {"ack": ("ack",), "nack": ("nack",), "reject": ("reject",), "reschedule": ("reschedule", 0),
                 "retry": ("retry", p0["tried"] + 1), "force_retry": ("retry", p0["tried"] + 1)}[eager]
    call = {"ack": "ack", "nack": "nack", "reject": "reject", "retry": "requeue", "reschedule": "requeue"}[d[0]]
    if d[0] == "ack":
        rest = ("gone",)
    elif d[0] == "nack":
        rest = ("dead", p0["tried"])
    elif d[0] == "reject":
        rest = ("queued", p0["tried"])
    else:
        rest = ("queued", d[1])
    return d, call, rest


def cells(tier):
    kinds = ["mem", "redis", "amqp"]
    out = []
    for kind in kinds:
        for conv in ("basic", "pydantic"):
            for b in BEHAVIOURS:
                for mx in (0, 1, 2):
                    # counters above the budget exist too: a forced retry puts them there
                    for tried in range(mx + 3):
                        for recurring in (False, True):
                            for store in (False, True):
                                out.append(dict(kind=kind, conv=conv, b=[b], max=mx, tried=tried,
                                                recurring=recurring, store=store))
    # concurrency: all ordered pairs (one representative modifier per eager action) + bystander
    reps = ["return", "raise_value", "timeout", "bad_json", "dep_raises", "bad_return", "raise_cancelled"] + [f"{e}/plain" for e in EAGER] + \
           ["ack/raising_callback", "retry/set_result"]
    if tier == "thorough":
        reps = list(BEHAVIOURS)
    for kind in kinds:
        for a, b in itertools.product(reps, reps):
            out.append(dict(kind=kind, conv="basic", b=[a, b, "return"], max=1, tried=0, recurring=False, store=True))
    # server timing deviations (one stalled Redis request / one late RabbitMQ completion per run) on
    # the cells where the retry goes straight back to the normal queue or the disposition races a
    # redelivery: zero back-off policy, every behaviour, both fake brokers
    devb = BEHAVIOURS if tier == "thorough" else ["raise_value", "timeout", "retry/plain", "force_retry/plain",
                                                  "reject/plain", "reschedule/plain", "ack/callback", "return"]
    for kind in ("redis", "amqp"):
        for b in devb:
            for mx, tried in ((1, 0), (1, 1)):
                out.append(dict(kind=kind, conv="basic", b=[b], max=mx, tried=tried, recurring=False, store=True,
                                dev=True, zero_backoff=True))
    return out


def payload_for(i, b):
    if b == "bad_json":
        return "{not json"
    if b == "bad_args":
        return '{"i":"not-an-int","b":{"x":1},"zzz":[]}'
    return '{"i":%d,"b":"%s"}' % (i, b)


def execute(cell, deviations=None):
    conv = BasicConverter if cell["conv"] == "basic" else PydanticConverter
    bs = cell["b"]
    msgs = []
    for i, b in enumerate(bs):
        msgs.append(dict(
            id=f"m{i}", topic="job_dep" if b == "dep_raises" else "job", payload=payload_for(i, b),
            params=(lambda w, i=i: w.params(retries=cell["max"], tried=cell["tried"], timeout=TIMEOUT,
                                            defer_by=100.0 if cell["recurring"] else None,
                                            next_in=-1.0 if cell["recurring"] else None,
                                            result=f"r{i}" if cell["store"] else None)),
        ))

    def build(x, worker):
        make_actors.zero_backoff = bool(cell.get("zero_backoff"))
        make_actors(x, worker, conv)

    res = run_worker(cell["kind"], build=build, messages=msgs, buckets="results" if cell["store"] else None,
                     deviations=deviations, server_choices=bool(cell.get("dev")),
                     worker_kw=dict(tasks_limit=2 if len(bs) > 1 else 1000, graceful_shutdown_time=0.5),
                     stop_at={"mem": 0.15, "redis": 0.8, "amqp": 0.3}[cell["kind"]] + (0.1 if len(bs) > 1 else 0))
    viol = []
    summary = []
    if res.status != "ok":
        viol.append(("worker-died", f"Worker.run() ended with {res.status}: {res.value!r}"))
    for i, b in enumerate(bs):
        mid = f"m{i}"
        p0 = res.p0[mid]
        if b == "bad_args" and cell["conv"] == "basic":
            # the basic converter does not validate types: the call happens with the raw values
            # and the behaviour name {"x": 1} fails inside the actor (unhashable/unknown) -> failure
            pass
        d, call, rest = expected(b, p0, cell["store"])
        # only the first delivery: cut the log at the redelivery
        cut = next((k for k, r in enumerate(res.log) if r[1] == "actor" and r[3] == mid and r[2] == "redelivered"),
                   len(res.log))
        first = res.log[:cut]
        calls = [(r[2], r[5]["tried"] if r[5] else None) for r in first
                 if r[1] == "call" and r[3] == mid and r[7] == 0 and r[2] in ("ack", "nack", "reject", "requeue")]
        evs = [r[2] for r in first if r[1] == "actor" and r[3] == mid]
        starts = evs.count("start")
        summary.append([b, calls, evs, lifecycle.rest_state(res.obs.get(mid, []))])
        kinds_ = [c[0] for c in calls]
        if cell.get("zero_backoff") and starts == 0 and b in ("bad_json", "bad_args", "dep_raises") and len(calls) > 1:
            # the body is never entered, so a redelivery cannot be parked: with a zero back-off the retried
            # message comes straight back and is disposed again - one disposition per delivery, as a chain
            chain = []
            pk = dict(p0)
            while True:
                dk, ck, rk = expected(b, pk, cell["store"])
                chain.append(((ck, dk[1] if ck == "requeue" else None), rk))
                if dk[0] != "retry":
                    break
                pk["tried"] += 1
            if calls != [c for c, _ in chain[:len(calls)]]:
                viol.append(("call-count", f"{mid} ({b}): terminal broker calls {calls} over {len(calls)} deliveries, "
                                           f"expected a prefix of {[c for c, _ in chain]}"))
            rest = chain[len(calls) - 1][1]
        elif len(calls) != 1:
            viol.append(("call-count", f"{mid} ({b}): {len(calls)} terminal broker calls {calls}, expected exactly one {call}"))
        elif kinds_[0] != call:
            viol.append(("wrong-call", f"{mid} ({b}): terminal call {calls[0]}, expected {call} ({d})"))
        elif call == "requeue" and calls[0][1] != d[1]:
            viol.append(("wrong-counter", f"{mid} ({b}): requeued with already_tried={calls[0][1]}, expected {d[1]}"))
        if b in ("bad_json", "bad_args", "dep_raises"):
            if starts != 0 and not (b == "bad_args" and cell["conv"] == "basic"):
                viol.append(("body-entered", f"{mid} ({b}): actor body entered although its inputs could not be built"))
        elif starts != 1:
            viol.append(("invocations", f"{mid} ({b}): actor invoked {starts} times for one delivery"))
        if "trailing-code-ran" in evs:
            viol.append(("trailing-code", f"{mid} ({b}): code after the eager response ran"))
        if "body-entered-despite-provider-failure" in [e[2] for e in res.actor_events(f"?{i}")]:
            viol.append(("body-entered", f"{mid} ({b}): actor body entered although the dependency provider raised"))
        got = lifecycle.rest_state(res.obs.get(mid, []))
        if any(e["place"] == "held" for e in res.obs.get(mid, [])):
            # whatever happened to the delivery, once the worker has returned nothing is in flight
            viol.append(("left-in-flight", f"{mid} ({b}): still marked in flight after the worker returned"))
        if cut < len(res.log):
            pass  # redelivered and parked afterwards: the final place no longer tells about this delivery
        elif got != rest:
            viol.append(("final-place", f"{mid} ({b}): rests as {got}, expected {rest}"))
    return res, viol, summary


def jobs(tier):
    cs = cells(tier)
    n = 40
    return [dict(cells=cs[i:i + n]) for i in range(0, len(cs), n)]


def run_job(job):
    from ..explore import alternatives
    acc = Acc()
    todo = []
    for cell in job["cells"]:
        if cell.get("dev") and "deviation" not in cell:
            base = execute(cell)[0]
            todo.append((cell, None))
            for alt in alternatives(base.points, want=lambda l: l.startswith("stall:") or l.startswith("late:")):
                todo.append((dict(cell, deviation=[alt]), [alt]))
        else:
            todo.append((cell, cell.get("deviation")))
    for cell, dev in todo:
        res, viol, summary = execute(cell, dev)
        acc.executions += 1
        acc.handles += res.handles
        acc.choice_points += len(cell["b"])
        acc.outcomes.add(digest([cell, summary]))
        acc.phases["pair" if len(cell["b"]) > 1 else "single"] += 1
        for sig, what in viol:
            b = cell["b"][0] if len(cell["b"]) == 1 else "pair"
            cls = b.split("/")[-1] if "/" in b else b
            acc.violations.append(dict(
                signature=f"{cell['kind']} {sig} {cls}" + (" +server-deviation" if dev else ""),
                what=what + f" [cell {cell}]",
                job=dict(cells=[cell]),
                detail=dict(summary=summary, exc=res.exc_log[:3]),
            ))
        if len(acc.samples) < 2:
            acc.samples.append(dict(cell=cell, observed=summary))
    return acc.to_dict()
