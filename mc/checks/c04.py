"""C04 - Retries are bounded, counted and backed off as configured.

Matrix of retry budgets x failure patterns x failure kinds x retry policies x recurrence x broker;
each cell is one real Worker.run() over the whole retry chain in virtual time.
"""
import asyncio
from datetime import timedelta

from repid import MessageDependency
from repid.converter import BasicConverter
from repid.retry_policy import default_retry_policy_factory

from ..explore import Acc, digest
from ..harness import actor_log
from ..scenario import run_worker
from ..vloop import NS

ID = "C04"
LEVEL = "model_checking"
RULE = ("full product of retry budget N in 0..3 x index of the first succeeding attempt (or none) x failure kind "
        "x retry policy x recurring x broker, plus forced retries at the budget boundary; "
        "distinct = distinct (cell, observed attempt counters, start times, final place)")
ASSUMPTIONS = [
    "Redis / RabbitMQ replaced by in-process models",
    "back-off lower bound checked with 1 ms tolerance (the statement's resolution)",
    "cron recurrences not covered (croniter not installed)",
]

TIMEOUT = 1.0
POLICIES = {
    "zero": dict(deltas=[0.0, 0.0, 0.0, 0.0]),  # retries go straight back to the normal queue
    "default": dict(factory=()),
    "f1": dict(factory=(1, 86400, 1, 15)),  # 2, 4, 8
    "f2": dict(factory=(1, 3, 1, 15)),  # 2, 3, 3
    "f3": dict(factory=(2, 2, 5, 15)),  # 2, 2, 2
    "f4": dict(factory=(1, 86400, 1, 1)),  # 2, 2, 2
    "f5": dict(factory=(3, 100, 2, 2)),  # 4, 8, 8
    "user": dict(deltas=[0.0, 1.3, 0.5, 2.0]),
}
PERIOD = 200.0


def policy_of(name):
    p = POLICIES[name]
    if "factory" in p:
        return default_retry_policy_factory(*p["factory"])
    deltas = p["deltas"]

    def user(retry_number: int = 1):
        return timedelta(seconds=deltas[(retry_number - 1) % len(deltas)])

    return user


def cells(tier):
    kinds = ["mem", "redis", "amqp"]
    pols = ["default", "f1", "user"] if tier == "quick" else list(POLICIES)
    out = []
    for kind in kinds:
        for n in (0, 1, 2, 3):
            for first_ok in list(range(n + 1)) + [None]:
                for fkind in ("exception", "timeout"):
                    for pol in pols:
                        for recurring in (False, True):
                            out.append(dict(kind=kind, n=n, first_ok=first_ok, fkind=fkind, pol=pol,
                                            recurring=recurring, forced=None))
        # forced / plain retry() through the message API at the budget boundary
        # zero back-off chains with one server timing deviation each (stalled Redis request, late
        # RabbitMQ confirm / reply / write-drain): the retry races its own redelivery
        if kind != "mem":
            for n in (1, 2):
                for first_ok in (1, None):
                    out.append(dict(kind=kind, n=n, first_ok=first_ok, fkind="exception", pol="zero", recurring=False,
                                    forced=None, dev=True))
        # the process east / west of UTC
        for tz in (9, -5):
            for recurring in (False, True):
                out.append(dict(kind=kind, n=2, first_ok=None, fkind="exception", pol="user", recurring=recurring,
                                forced=None, tz=tz))
        for n in (0, 1, 2):
            for api in ("retry", "force_retry", "force_then_fail"):
                out.append(dict(kind=kind, n=n, first_ok=None, fkind="exception", pol="f1", recurring=False, forced=api))
    return out


def execute(cell, deviations=None):
    from ..vloop import local_zone

    with local_zone(cell.get("tz", 0)):  # due times of retries are naive local stamps
        return _execute(cell, deviations)


def _execute(cell, deviations=None):
    pol = policy_of(cell["pol"])
    n = cell["n"]
    total_wait = sum(pol(k).total_seconds() for k in range(1, n + 4)) + (n + 3) * TIMEOUT

    def build(x, worker):
        w = x.world
        attempt = {}

        async def job(m: MessageDependency):
            mid = m.key.id_
            tried = m.parameters.retries.already_tried
            sched = attempt.setdefault("sched", 0)
            k = attempt.get("k", 0)
            actor_log(w, mid, "start", dict(tried=tried, k=k, sched=sched))
            attempt["k"] = k + 1
            if cell["forced"] and sched == 0:
                # exercise the message API at / beyond the budget
                if cell["forced"] == "force_retry":
                    if k <= n + 1:  # two forced retries beyond the budget, then stop
                        await m.force_retry()
                    await m.nack()
                elif cell["forced"] == "force_then_fail":
                    if k <= n + 1:  # forced beyond the budget, then an ordinary failure
                        await m.force_retry()
                    actor_log(w, mid, "fail")
                    raise ValueError("ordinary failure above the budget")
                else:
                    await m.retry()  # raises ValueError once the budget is spent -> failure
            ok = cell["first_ok"] is not None and k >= cell["first_ok"]
            if sched > 0:
                ok = True
            if ok:
                attempt["k"] = 0
                attempt["sched"] = sched + 1
                actor_log(w, mid, "ok")
                return None
            if cell["first_ok"] is None and k >= n and not cell["forced"]:
                # the chain ends here (dead / rescheduled): next delivery is a new scheduling
                attempt["k"] = 0
                attempt["sched"] = sched + 1
            if cell["fkind"] == "timeout":
                try:
                    await asyncio.sleep(10 * TIMEOUT)
                except asyncio.CancelledError:
                    actor_log(w, mid, "fail")
                    raise
            actor_log(w, mid, "fail")
            raise ValueError("attempt failed")

        worker.actor(job, name="job", queue="q", converter=BasicConverter, retry_policy=pol)

    msgs = [dict(id="m0", topic="job", payload="",
                 params=lambda w: w.params(retries=n, timeout=TIMEOUT,
                                           defer_by=PERIOD if cell["recurring"] else None,
                                           next_in=-1.0 if cell["recurring"] else None))]
    horizon = total_wait + 3.0 + (PERIOD + 3 if cell["recurring"] else 0)
    res = run_worker(cell["kind"], build=build, messages=msgs, stop_at=horizon, deviations=deviations,
                     server_choices=bool(cell.get("dev")),
                     worker_kw=dict(graceful_shutdown_time=0.2), max_iters=3_000_000, settle=1.0)
    viol = []
    if res.status != "ok":
        viol.append(("worker-died", f"Worker.run() ended with {res.status}: {res.value!r}"))
    starts = [(r[0], r[4]) for r in res.log if r[1] == "actor" and r[2] == "start"]
    requeues = [(r[0], r[5]) for r in res.log if r[1] == "call" and r[2] == "requeue" and r[7] == 0]
    first = [s for s in starts if s[1]["sched"] == 0]
    later = [s for s in starts if s[1]["sched"] > 0]
    counters = [s[1]["tried"] for s in first]
    if cell["forced"] in ("force_retry", "force_then_fail"):
        want_counters = list(range(n + 3))
    elif cell["forced"] == "retry":
        want_counters = list(range(n + 1))
    else:
        want_runs = (cell["first_ok"] + 1) if cell["first_ok"] is not None else n + 1
        want_counters = list(range(want_runs))
    if counters != want_counters:
        viol.append(("attempts", f"attempt counters seen at the deliveries of one scheduling: {counters}, expected {want_counters}"))
    if not cell["forced"] and any(c > n for c in counters):
        viol.append(("over-budget", f"already_tried exceeded retries={n} without force: {counters}"))
    # back-off: delivery k+1 not before the requeue instant + policy(k+1)
    retry_requeues = [rq for rq in requeues if rq[1] is not None and rq[1]["tried"] > 0]
    for rq_ns, pv in retry_requeues:
        k = pv["tried"]
        nxt = next((s for s in starts if s[0] >= rq_ns and s[1]["tried"] == k), None)
        if nxt is None:
            viol.append(("retry-not-delivered", f"retry {k} requeued at {rq_ns / NS:.3f}s was never delivered"))
            continue
        need = pol(k).total_seconds()
        got = (nxt[0] - rq_ns) / NS
        if got < need - 0.001:
            viol.append(("early-retry", f"retry {k} delivered {got:.3f}s after its failure, policy asks for {need:.3f}s"))
        if got > need + 3.0:
            viol.append(("late-retry", f"retry {k} delivered {got:.3f}s after its failure, policy asks for {need:.3f}s"))
    # end of the chain
    ents = res.obs.get("m0", [])
    places = sorted((e["place"], e["params"]["tried"] if e["params"] else None) for e in ents)
    if cell["forced"] in ("force_retry", "force_then_fail"):
        want_end = "dead"
    elif cell["recurring"]:
        want_end = "recurring"
    elif cell["forced"] == "retry" or cell["first_ok"] is None:
        want_end = "dead"
    else:
        want_end = "gone"
    if want_end == "gone" and places:
        viol.append(("chain-end", f"after success the message is still present: {places}"))
    if want_end == "dead" and [p[0] for p in places] != ["dead"]:
        viol.append(("chain-end", f"after the last failed attempt the message is in {places}, expected dead"))
    if want_end == "recurring":
        if len(later) < 1:
            viol.append(("chain-end", f"recurring job was not run again after its chain ended (places {places})"))
        elif later[0][1]["tried"] != 0:
            viol.append(("chain-end", f"next scheduling delivered with already_tried={later[0][1]['tried']}"))
        if len(places) != 1 or places[0][0] not in ("delayed", "waiting") or places[0][1] != 0:
            viol.append(("chain-end", f"recurring job rests in {places}, expected one delayed copy with counter 0"))
    summary = dict(counters=counters, later=[s[1] for s in later], starts=[round(s[0] / NS, 3) for s in starts], places=places)
    return res, viol, summary


def jobs(tier):
    cs = cells(tier)
    # long-running cells first so the pool stays busy
    cs.sort(key=lambda c: (-(c["n"]), c["pol"] != "default"))
    n = 6
    return [dict(cells=cs[i:i + n]) for i in range(0, len(cs), n)]


def run_job(job):
    from ..explore import alternatives
    acc = Acc()
    todo = []
    for cell in job["cells"]:
        todo.append((cell, cell.get("deviation")))
        if cell.get("dev") and "deviation" not in cell:
            base = execute(cell)[0]
            # only the timing around dispositions matters here; skip the idle polling of the consumer
            pts = alternatives(base.points, want=lambda l: l.startswith("late:") or
                               (l.startswith("stall:") and ("MULTI" in l or "HMGET" in l)))
            for alt in pts:
                todo.append((dict(cell, deviation=[alt]), [alt]))
    for cell, dev in todo:
        res, viol, summary = execute(cell, dev)
        acc.executions += 1
        acc.handles += res.handles
        acc.choice_points += 1
        acc.outcomes.add(digest([cell, summary]))
        acc.phases["forced" if cell["forced"] else ("recurring" if cell["recurring"] else "plain")] += 1
        for sig, what in viol:
            acc.violations.append(dict(
                signature=f"{cell['kind']} {sig}" + (" +server-deviation" if dev else ""),
                what=what + f" [cell {cell}]",
                job=dict(cells=[cell]),
                detail=summary,
            ))
        if len(acc.samples) < 2:
            acc.samples.append(dict(cell=cell, observed=summary))
    return acc.to_dict()
