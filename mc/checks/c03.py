"""C03 - Stopping or killing a worker at any moment loses no message.

sweep(stop): for every loop iteration of a scenario's run, deliver SIGTERM at that iteration's
select phase (where a real loop would see the self-pipe become readable); let the worker
return; settle; then compare the broker state with the lifecycle model.
"""
import asyncio
import re

from repid import MessageDependency

from ..explore import Acc, digest
from ..harness import BASIC, SIGTERM, Exec, actor_log, actor_runs
from ..models import lifecycle
from ..vloop import NS
from ..world import params_view

ID = "C03"
LEVEL = "model_checking"
RULE = ("one execution per (scenario, iteration at which the stop signal / crash arrives[, time slip / "
        "server-order deviation]); distinct = distinct end observation (final place and retry counter of "
        "every message, actor outcomes, return latency class)")
ASSUMPTIONS = [
    "asyncio scheduling reproduced by VLoop (validated against stock asyncio by selftest)",
    "a signal becomes visible at the select phase of a loop iteration (self-pipe), as on a real loop",
    "Redis / RabbitMQ replaced by in-process models of their documented semantics",
]
EXPECTED_PHASES = {"quick": ["actor", "idle"], "thorough": ["actor", "idle"]}

ACTORS = {
    # name: (duration s, fails?, recurring?)
    "short": (0.010, False, False),
    "long": (0.050, False, False),
    "never": (3600.0, False, False),
    "fail_retry": (0.010, True, False),
    "fail_nack": (0.010, True, False),
    "recurring": (0.010, False, True),
    "result": (0.010, False, False),
    "eager_ack": (0.010, False, False),  # the actor acknowledges by itself (await m.ack())
    # the actor does not pass a cancellation on: it finishes its work and returns normally (the forced stop
    # then meets a processing that completes with a disposition of its own)
    "swallow": (0.050, False, False),
}
SLACK = 5 + 1 + 0.5
TIMEOUT = 600.0


class _NoHandler(Exception):
    pass


def scenarios(tier):
    out = []
    kinds = ["mem", "redis", "amqp"]
    gs = [0.0, 0.02] if tier == "quick" else [0.0, 0.02, 0.1]
    for kind in kinds:
        for g in gs:
            for actor in ACTORS:
                for load in (1, 3):
                    out.append(dict(kind=kind, g=g, actor=actor, load=load, stop="signal"))
    return out


def horizon_of(scn) -> float:
    dur = ACTORS[scn["actor"]][0]
    d = min(dur, 0.06)
    base = {"mem": 0.03, "redis": 0.45, "amqp": 0.05}[scn["kind"]]
    return base + d * (2 if scn["load"] == 3 else 1)


def execute(scn, k=None, deviations=None, slip=None):
    """One execution.  k = iteration (relative to worker start) at which SIGTERM arrives;
    None = at the scenario horizon (baseline)."""
    dur, fails, recurring = ACTORS[scn["actor"]]
    x = Exec(scn["kind"], deviations=deviations, buckets="results" if scn["actor"] == "result" else None)
    w = x.world
    res = dict(viol=[], obs=None)
    try:
        n = scn["load"]
        worker = x.worker(graceful_shutdown_time=scn["g"], tasks_limit=2 if n == 3 else 1000)

        async def job(i: int):
            mid = f"m{i}"
            actor_log(w, mid, "start")
            t0 = x.loop._ns
            try:
                await asyncio.sleep(dur)
            except asyncio.CancelledError:
                # cancelled by the execution timeout = a failed execution; otherwise by the worker
                timed_out = x.loop._ns - t0 >= TIMEOUT * NS
                if scn["actor"] == "swallow" and not timed_out:
                    actor_log(w, mid, "ok")
                    return i
                actor_log(w, mid, "fail" if timed_out else "cancelled")
                raise
            if fails:
                actor_log(w, mid, "fail")
                raise ValueError("boom")
            actor_log(w, mid, "ok")
            return i

        async def job_eager(i: int, m: MessageDependency):
            mid = f"m{i}"
            actor_log(w, mid, "start")
            try:
                await asyncio.sleep(dur)
            except asyncio.CancelledError:
                actor_log(w, mid, "cancelled")
                raise
            actor_log(w, mid, "ok")
            await m.ack()

        worker.actor(job_eager if scn["actor"] == "eager_ack" else job, name="job", queue="q", converter=BASIC,
                     retry_policy=lambda retry_number=1: __import__("datetime").timedelta(seconds=7))

        p0 = {}

        async def setup():
            await w.connect()
            await w.broker.queue_declare("q")
            for i in range(n):
                p = w.params(
                    retries=1 if scn["actor"] == "fail_retry" else 0,
                    defer_by=3.0 if recurring else None,
                    next_in=-1.0 if recurring else None,  # first run already due
                    result=f"r{i}" if scn["actor"] == "result" else None,
                    timeout=TIMEOUT,
                )
                p0[f"m{i}"] = params_view(p)
                await w.broker.enqueue(w.key(f"m{i}"), f'{{"i":{i}}}', p)

        st, v = x.run(setup())
        assert st == "ok", (st, v)
        if scn.get("server_choices") and w.server is not None:
            # from here on every request may be overtaken / reordered (deviation-bounded search)
            w.server.reorder = True
            if hasattr(w.server, "stall_choice"):
                w.server.stall_choice = True
        x.mark()
        stop_ns = [None]

        stop_idx = [None]

        def stop():
            if int(SIGTERM) not in x.loop._sig:
                # no handler installed (yet / any more): the default action kills the process.
                # For a stop request that is not a case; process death is swept separately.
                raise _NoHandler()
            stop_ns[0] = x.loop._ns
            stop_idx[0] = len(x.log)
            x.loop.raise_signal(SIGTERM)

        if k is None:
            h = x.loop.call_later(horizon_of(scn), stop)
        else:
            x.at_iteration(k, stop)
            if slip is not None:
                x.slip_at(k + slip[0], slip[1])
        try:
            st, v = x.run(worker.run(), max_iters=150_000)
        except _NoHandler:
            res["nohandler"] = True
            res["iters"] = x.rel_iter
            return res
        ret_ns = x.loop._ns
        res["iters"] = x.rel_iter
        res["stop_iter"] = None
        if st != "ok":
            res["viol"].append(("run-" + st, f"Worker.run() did not return normally: {st} {v!r}"))
        elif stop_ns[0] is not None:
            lat = (ret_ns - stop_ns[0]) / NS
            if lat > scn["g"] + SLACK:
                res["viol"].append(("late-return", f"run() returned {lat:.3f}s after the stop (g={scn['g']})"))
            res["lat"] = lat
        idle = x.settle(max_vt=5.0)
        left = [t for t in x.pending_tasks()]
        obs = w.observe()
        # ---- oracle ------------------------------------------------------------------
        summary = {}
        for i in range(n):
            mid = f"m{i}"
            entries = obs.get(mid, [])
            runs = actor_runs(x.log, mid)
            outcomes = [r[2] == "ok" for r in runs if r[2] in ("ok", "fail")]
            allowed = lifecycle.stages(p0[mid], outcomes)
            rest = lifecycle.rest_state(entries)
            summary[mid] = [rest, [r[2] for r in runs]]
            if rest is None:
                places = sorted(e["place"] for e in entries)
                if "held" in places and len(places) == 1:
                    res["viol"].append(("left-in-flight", f"{mid} still marked in flight after run() returned"))
                else:
                    res["viol"].append(("duplicated", f"{mid} is in {places} after run() returned"))
            elif rest not in allowed:
                if rest == ("gone",):
                    res["viol"].append(("lost", f"{mid} is in no queue, executions completed: {[r[2] for r in runs]}"))
                else:
                    res["viol"].append(("wrong-rest-state",
                                        f"{mid} rests as {rest}, allowed {allowed} (executions {[r[2] for r in runs]})"))
            if any(r[1] is None for r in runs):
                res["viol"].append(("actor-still-running", f"actor of {mid} still running after run() returned and 5s settle"))
        for mid in obs:
            if mid not in p0 and not mid.startswith("__"):
                res["viol"].append(("ghost", f"unknown id {mid} in the broker"))
        if obs.get("__orphans__"):
            res["viol"].append(("ghost", f"queue entries without message data / data without entry: {obs['__orphans__']}"))
        res["obs"] = summary
        res["stop_ns"] = stop_ns[0]
        res["phase"] = phase_of(x.log, stop_idx[0])
        res["slipped"] = x.slipped
        res["handles"] = x.loop.handles
        res["points"] = x.chooser.points
        res["exc_log"] = [str(c.get("exception") or c.get("message")) for c in x.loop.exc_log]
    finally:
        x.close()
    return res


CRASH_TIMEOUT = 3.0


def execute_crash(scn, k):
    """Process death at iteration k (Redis): the worker's client stops talking, the server finishes
    what it had received.  A fresh client then runs maintenance before and after the execution
    timeout; in-flight messages must come back exactly once, and only after the timeout."""
    from ..env import fake_redis
    from repid.message import MessageCategory

    dur, fails, recurring = ACTORS[scn["actor"]]
    CRASH_TIMEOUT = scn.get("timeout", globals()["CRASH_TIMEOUT"])  # noqa: N806 - per scenario
    x = Exec("redis", buckets="results" if scn["actor"] == "result" else None)
    w = x.world
    loop = x.loop
    res = dict(viol=[], obs=None)
    try:
        n = scn["load"]
        worker = x.worker(graceful_shutdown_time=1.0, tasks_limit=2 if n == 3 else 1000)
        done = {}

        async def job(i: int):
            mid = f"m{i}"
            actor_log(w, mid, "start")
            await asyncio.sleep(min(dur, 0.05))
            if fails:
                actor_log(w, mid, "fail")
                raise ValueError("boom")
            actor_log(w, mid, "ok")
            return i

        worker.actor(job, name="job", queue="q", converter=BASIC,
                     retry_policy=lambda retry_number=1: __import__("datetime").timedelta(seconds=60))

        async def setup():
            await w.connect()
            await w.broker.queue_declare("q")
            for i in range(n):
                p = w.params(retries=1 if scn["actor"] == "fail_retry" else 0, timeout=CRASH_TIMEOUT,
                             result=f"r{i}" if scn["actor"] == "result" else None)
                await w.broker.enqueue(w.key(f"m{i}", "job", "q", 9), f'{{"i":{i}}}', p)

        x.run(setup())
        x.mark()
        run_task = asyncio.ensure_future(worker.run(), loop=loop)
        crashed = [False]

        def crash():
            crashed[0] = True
            clients = [b.conn for b in w.brokers]
            for bb in (w.conn.results_bucket_broker, w.conn.args_bucket_broker):
                if bb is not None:
                    clients.append(bb.conn)
            w.server.kill_clients(clients)

        x.at_iteration(k, crash)
        from ..vloop import Deadlock
        while not crashed[0] and not run_task.done():
            try:
                loop.step()
            except Deadlock:
                break  # the dead process has nothing left to run
        t_crash = loop._ns
        res["iters"] = x.rel_iter
        takes = {}  # id -> ns of the take (processing mark), from the server command log
        for ns, client, label, st in w.server.cmdlog:
            if label.startswith("MULTI[lrem:") or label.startswith("MULTI[zrem:q:"):
                m = re.search(r"hset:m:q:\d+:job:(m\d+)", label)
                if m:
                    takes[m.group(1)] = ns
        obs0 = w.observe()
        # state right after the crash: every message in exactly one place
        runs = {f"m{i}": actor_runs(x.log, f"m{i}") for i in range(n)}
        for i in range(n):
            mid = f"m{i}"
            ents = obs0.get(mid, [])
            okrun = any(r[2] == "ok" for r in runs[mid])
            failrun = any(r[2] == "fail" for r in runs[mid])
            if len(ents) > 1:
                res["viol"].append(("crash-duplicated", f"right after the crash {mid} is in {[e['place'] for e in ents]}"))
            if not ents and not okrun:
                res["viol"].append(("crash-lost", f"right after the crash {mid} is nowhere although it never completed"))
        if obs0.get("__orphans__"):
            res["viol"].append(("crash-ghost", f"right after the crash: {obs0['__orphans__']}"))
        held0 = sorted(mid for mid, ents in obs0.items() if not mid.startswith("__") and any(e["place"] == "held" for e in ents))
        # recovery client 1: maintenance before the timeout must not release anything in flight
        rec = fake_redis.make_broker(w.server, "recovery")
        early_by = CRASH_TIMEOUT - 1.05
        first_take = min([takes[m] for m in held0 if m in takes], default=None)
        if first_take is not None and t_crash + round(0.01 * NS) < first_take + round(early_by * NS):
            target = first_take + round(early_by * NS)
            loop.run_for((target - loop._ns) / NS)
            x.run(rec.connect())
            obs1 = w.observe()
            for mid in held0:
                if mid in takes and takes[mid] <= first_take + round(0.04 * NS):
                    places = [e["place"] for e in obs1.get(mid, [])]
                    if places != ["held"]:
                        res["viol"].append(("recovered-too-early", f"{mid} was taken {(loop._ns - takes[mid]) / NS:.2f}s ago "
                                                                   f"(execution timeout {CRASH_TIMEOUT}s) but maintenance already moved it to {places}"))
        # recovery client 2: after the timeout maintenance must make it deliverable, exactly once
        last_take = max([takes[m] for m in held0 if m in takes], default=t_crash)
        target = max(loop._ns, last_take + round((CRASH_TIMEOUT + 1.05) * NS))
        loop.run_for((target - loop._ns) / NS)
        x.run(rec.maintenance())
        x.run(rec.maintenance())  # running it again must not duplicate anything
        obs2 = w.observe()
        for mid in held0:
            ents = obs2.get(mid, [])
            places = [e["place"] for e in ents]
            if places not in (["waiting"], ["delayed"]):
                res["viol"].append(("not-recovered", f"{mid} was in flight when the worker died; after its execution timeout and "
                                                     f"maintenance it is in {places}"))
        if obs2.get("__orphans__"):
            res["viol"].append(("crash-ghost", f"after recovery: {obs2['__orphans__']}"))
        for mid, ents in obs2.items():
            if not mid.startswith("__") and len(ents) > 1:
                res["viol"].append(("crash-duplicated", f"after recovery {mid} is in {[e['place'] for e in ents]}"))
        # a fresh consumer receives every recovered message exactly once
        got = []
        c = rec.get_consumer("q", None, None, MessageCategory.NORMAL)

        async def drain():
            await c.start()
            try:
                while True:
                    key, _, _ = await asyncio.wait_for(c.consume(), 1.5)
                    got.append(key.id_)
            except asyncio.TimeoutError:
                pass
            await c.finish()

        x.run(drain(), max_iters=300_000)
        waiting2 = sorted(mid for mid, ents in obs2.items() if not mid.startswith("__") and [e["place"] for e in ents] == ["waiting"])
        if sorted(got) != waiting2:
            res["viol"].append(("redelivery", f"messages waiting after recovery {waiting2}, a fresh consumer received {sorted(got)}"))
        res["obs"] = dict(held_at_crash=held0, after={m: [e["place"] for e in v] for m, v in obs2.items() if not m.startswith("__")},
                          redelivered=sorted(got))
        res["phase"] = "crash:" + phase_of(x.log, len(x.log))
        res["handles"] = loop.handles
        res["points"] = []
        res["stop_ns"] = t_crash
    finally:
        x.close()
    return res


def phase_of(log, idx):
    """What the worker was doing when the stop arrived (idx = length of the spy log then)."""
    if idx is None:
        return "none"
    calls = []
    actors = set()
    seen_actor = False
    for rec in log[:idx]:
        if rec[1] == "call" and rec[2] != "enqueue":
            calls.append((rec[2], rec[3]))
        elif rec[1] == "ret" and (rec[2], rec[3]) in calls:
            calls.remove((rec[2], rec[3]))
        elif rec[1] == "actor":
            if rec[2] == "start":
                actors.add(rec[3])
                seen_actor = True
            else:
                actors.discard(rec[3])
    if calls:
        return calls[-1][0]
    if actors:
        return "actor"
    return "idle" if seen_actor else "prefetch"


def jobs(tier):
    out = []
    for scn in scenarios(tier):
        base = execute(scn, None)
        if base["viol"]:
            out.append(dict(scn=scn, ks=[None]))
        nk = base["iters"]
        # the baseline's stop came at the horizon; sweep every iteration up to there
        chunk = 12
        for lo in range(0, nk, chunk):
            out.append(dict(scn=scn, ks=list(range(lo, min(lo + chunk, nk))), slips=True))
    # second deviation: the stop instant combined with one reordered / stalled server request
    for kind in ("redis", "amqp"):
        for actor in ("long", "fail_retry", "recurring", "eager_ack") if tier == "thorough" else ("long", "eager_ack"):
            for g in (0.0, 0.02) if tier == "thorough" else (0.0,):
                if True:
                    scn = dict(kind=kind, g=g, actor=actor, load=3, stop="signal", server_choices=True)
                    base = execute(scn, None)
                    for k in range(0, base["iters"]):
                        out.append(dict(scn=scn, ks=[k], devs=True))
    # process death (Redis keeps the in-flight state outside the process)
    for actor in ("short", "long", "fail_retry", "fail_nack", "result"):
        for load in (1, 3):
            scn = dict(kind="redis", g=1.0, actor=actor, load=load, stop="crash")
            base = execute(dict(scn, stop="signal"), None)
            nk = base["iters"]
            for lo in range(0, nk, 25):
                out.append(dict(scn=scn, ks=list(range(lo, min(lo + 25, nk)))))
    # execution timeouts with a days component (timedelta.seconds is not total_seconds())
    for tmo in (86400.0 + 1.5, 2 * 86400.0):
        scn = dict(kind="redis", g=1.0, actor="long", load=1, stop="crash", timeout=tmo)
        base = execute(dict(scn, stop="signal"), None)
        ks = list(range(0, base["iters"], 3 if tier == "quick" else 1))
        for lo in range(0, len(ks), 25):
            out.append(dict(scn=scn, ks=ks[lo:lo + 25]))
    return out


SLIP_WINDOW = 16


def run_job(job):
    acc = Acc()
    scn = job["scn"]
    todo = []
    for k in job["ks"]:
        todo.append((k, None))
        if job.get("slips") and k is not None:
            for dk in range(0, SLIP_WINDOW):
                for j in (1, 2):
                    todo.append((k, [dk, j]))
    if job.get("one"):
        todo = [tuple(job["one"])]
    devlist = [job.get("dev")]
    if job.get("devs"):
        from ..explore import alternatives
        b0 = execute(scn, job["ks"][0], None, None)
        devlist = [None] + [[a] for a in alternatives(b0.get("points", []),
                                                     want=lambda l: l.startswith("order:") or l.startswith("stall:") or l == "amqp-order")]
        todo = [(job["ks"][0], None)]
    for dev in devlist:
      for k, slip in todo:
        if scn.get("stop") == "crash":
            r = execute_crash(scn, k)
        else:
            r = execute(scn, k, dev, slip)
        if slip is not None and not r.get("slipped"):
            acc.extra["slip_not_applicable"] += 1
            continue
        acc.executions += 1
        acc.handles += r.get("handles", 0)
        acc.choice_points += 1 + len(r.get("points", []))
        if r.get("nohandler"):
            acc.extra["signal_without_handler_skipped"] += 1
            continue
        if r.get("stop_ns") is None and k is not None:
            # the worker returned before iteration k: nothing was injected
            acc.extra["injection_after_return"] += 1
            continue
        acc.phases[r.get("phase", "none")] += 1
        acc.outcomes.add(digest([scn["kind"], scn["actor"], scn["load"], r["obs"], r["viol"] and sorted(set(v[0] for v in r["viol"]))]))
        for sig, what in r["viol"]:
            acc.violations.append(dict(
                signature=f"{scn['kind']} {sig} stop-during={r.get('phase')}" + (" +server-deviation" if dev else "")
                          + (" eager-response" if scn["actor"] == "eager_ack" else ""),
                what=what + f" [stop at iteration {k}, time slip {slip}, server deviations {dev}, scenario {scn}]",
                job=dict(scn=scn, ks=[], one=[k, slip], dev=dev),
                detail=dict(obs=r["obs"], exc=r.get("exc_log")),
            ))
        if len(acc.samples) < 2:
            acc.samples.append(dict(scenario=scn, stop_at_iteration=k, time_slip=slip, phase=r.get("phase"), end=r["obs"]))
    return acc.to_dict()
