#!/usr/bin/env python3
"""Confirm a seeded change (made by an independent agent in a scratch worktree), store it under
/verif/seeded/<name>/ and run checks against it.

usage: seed_eval.py <name> <worktree> <check-id>[,<check-id>...] [--tier quick|thorough] [--skip-confirm]
"""
import json
import os
import re
import shutil
import subprocess
import sys

PY = "/venv/bin/python"
PYTEST = ("unshare -n bash -c 'ip link set lo up 2>/dev/null; cd {wt} && timeout 1200 " + PY +
          " -m pytest -q -p no:cacheprovider --timeout=900 --continue-on-collection-errors 2>&1 | tail -1'")


def sh(cmd, **kw):
    return subprocess.run(cmd, shell=True, capture_output=True, text=True, **kw)


def main():
    name, wt, checks = sys.argv[1], sys.argv[2], sys.argv[3].split(",")
    tier = "quick"
    if "--tier" in sys.argv:
        tier = sys.argv[sys.argv.index("--tier") + 1]
    dest = f"/verif/seeded/{name}"
    os.makedirs(dest, exist_ok=True)
    meta_path = os.path.join(wt, "SEED", "meta.json")
    meta = {}
    if os.path.exists(meta_path):
        try:
            meta = json.load(open(meta_path))
        except Exception as e:  # noqa: BLE001
            meta = {"meta_unreadable": str(e)}
    confirm = {}
    if "--skip-confirm" not in sys.argv:
        diff = sh(f"git -C {wt} diff -- repid").stdout
        open(os.path.join(dest, "patch.diff"), "w").write(diff)
        r = sh(PYTEST.format(wt=wt))
        confirm["test_suite_with_change"] = r.stdout.strip()
        d1 = sh(f"cd {wt} && PYTHONPATH={wt} timeout 600 {PY} SEED/demo.py")
        confirm["demo_with_change_exit"] = d1.returncode
        confirm["demo_with_change_tail"] = (d1.stdout + d1.stderr)[-600:]
        sh(f"git -C {wt} stash")
        d0 = sh(f"cd {wt} && PYTHONPATH={wt} timeout 600 {PY} SEED/demo.py")
        confirm["demo_without_change_exit"] = d0.returncode
        sh(f"git -C {wt} stash pop")
        shutil.copy(os.path.join(wt, "SEED", "demo.py"), os.path.join(dest, "demo.py"))
        ok = ("194 passed" in confirm["test_suite_with_change"] and d1.returncode != 0 and d0.returncode == 0)
        confirm["confirmed"] = ok
        print("confirm:", json.dumps(confirm, indent=1)[:1500])
    # run the checks against the change applied to /repo
    patch = os.path.join(dest, "patch.diff")
    st = sh("git -C /repo status --short").stdout.strip()
    if st:
        print("refusing: /repo is dirty:\n" + st)
        return 2
    # SEED_SCRATCH=<dir>: apply the change to a scratch copy instead of /repo itself (needed while
    # something else reads /repo, e.g. a mutation sweep); CPUS pins the checks to some cores
    scratch = os.environ.get("SEED_SCRATCH")
    pin = f"taskset -c {os.environ['CPUS']} " if os.environ.get("CPUS") else ""
    envp = ""
    if scratch:
        sh(f"rm -rf {scratch} && mkdir -p {scratch} && rsync -a --exclude .git --exclude __pycache__ --exclude docs "
           f"--exclude benchmarks /repo/ {scratch}/")
        a = sh(f"cd {scratch} && patch -p1 --fuzz=0 --no-backup-if-mismatch -s < {patch}")
        envp = f"REPID_TREE={scratch} MC_OUT={scratch}.out "
    else:
        a = sh(f"git -C /repo apply {patch}")
    if a.returncode != 0:
        print("patch does not apply to /repo HEAD:", a.stderr, a.stdout)
        return 2
    results = {}
    try:
        for c in checks:
            r = sh(f"cd /verif && {envp}VERIF_TIER={tier} {pin}./check {c} {tier}")
            viols = re.findall(r"^VIOLATION property=(\S+)", r.stdout, re.M)
            sigs = re.findall(r"signature=([^\]]+)\]", r.stdout)
            results[c] = dict(exit=r.returncode, violations=len(viols), signatures=sorted(set(sigs))[:8],
                              tail=r.stdout.strip().splitlines()[-1:] + r.stderr.strip().splitlines()[-2:])
            print(c, "exit", r.returncode, "violations", len(viols), sorted(set(sigs))[:4])
    finally:
        if scratch:
            sh(f"rm -rf {scratch} {scratch}.out")
        else:
            sh("git -C /repo checkout -- .")
            sh("cd /verif && git checkout -- evidence 2>/dev/null")
    meta_out = dict(meta)
    meta_out.update(dict(name=name, confirmed_by_me=confirm or "see earlier run", checks_run={
        c: dict(tier=tier, exit=v["exit"], violations=v["violations"], signatures=v["signatures"]) for c, v in results.items()},
        detected_by=[c for c, v in results.items() if v["exit"] == 1 and v["violations"] > 0],
        base_commit=sh("git -C /repo rev-parse --short HEAD").stdout.strip()))
    old = {}
    if os.path.exists(os.path.join(dest, "meta.json")):
        try:
            old = json.load(open(os.path.join(dest, "meta.json")))
        except Exception:  # noqa: BLE001
            old = {}
    if confirm == {} and "confirmed_by_me" in old:
        meta_out["confirmed_by_me"] = old["confirmed_by_me"]
        for k, v in old.items():
            meta_out.setdefault(k, v)
    json.dump(meta_out, open(os.path.join(dest, "meta.json"), "w"), indent=1)
    return 0


if __name__ == "__main__":
    sys.exit(main())
