"""C19 - Schedule arithmetic is well-behaved for all inputs.

Pure functions under the pinned clock, enumerated exhaustively over finite grids (not a proof over
all integers): default retry policy, next execution time of periodic jobs, expiry predicates.
"""
import itertools
from datetime import datetime, timedelta, timezone

from repid.data._buckets import ArgsBucket, ResultBucket
from repid.data._parameters import DelayProperties, Parameters
from repid.retry_policy import default_retry_policy_factory

from ..explore import Acc, digest
from ..vloop import CLOCK

ID = "C19"
LEVEL = "exploration"
RULE = ("exhaustive grids: retry policy (min,max,multiplier,max_exponent) x retry number; next execution time over "
        "period x (now - time base) at every microsecond within +-3 us of k*period and at midpoints x deferred_until "
        "setting x base kind; expiry predicates at expiry -1us/0/+1us, naive and aware; distinct and non-trivial = "
        "distinct (function, input) whose result differs from the trivial default")
ASSUMPTIONS = ["cron schedules excluded (croniter not installed)", "grids, not all of Z: values outside them are not covered"]

US = timedelta(microseconds=1)


def retry_jobs(tier="quick"):
    vals = [1, 2, 10, 86400, 10 ** 9] if tier == "quick" else [0, 1, 2, 3, 10, 60, 86400, 86401, 10 ** 6, 10 ** 9]
    out = []
    for mn, mx in itertools.product(vals, vals):
        if mn > mx:
            continue
        for mult in (1, 5, 10 ** 6) if tier == "quick" else (0, 1, 2, 3, 5, 7, 10 ** 3, 10 ** 6):
            for me in (0, 1, 15, 64, 4096) if tier == "quick" else (0, 1, 2, 3, 15, 16, 63, 64, 1023, 1024, 4096):
                out.append(dict(t="retry", mn=mn, mx=mx, mult=mult, me=me))
    return out


def run_retry(c, acc):
    pol = default_retry_policy_factory(c["mn"], c["mx"], c["mult"], c["me"])
    prev = None
    ns = list(range(1, 81)) + [10 ** 3, 10 ** 6]
    seen = set()
    for n in ns:
        acc.executions += 1
        try:
            d = pol(n)
        except Exception as e:  # noqa: BLE001
            yield ("retry-exception", f"default policy{(c['mn'], c['mx'], c['mult'], c['me'])}({n}) raised {type(e).__name__}: {e}")
            return
        s = d.total_seconds()
        seen.add(s)
        if not (c["mn"] <= s <= c["mx"]):
            yield ("retry-bounds", f"default policy{(c['mn'], c['mx'], c['mult'], c['me'])}({n}) = {s}s outside [{c['mn']}, {c['mx']}]")
            return
        if prev is not None and s < prev:
            yield ("retry-monotone", f"default policy{(c['mn'], c['mx'], c['mult'], c['me'])}: back-off decreases from {prev}s to {s}s at retry {n}")
            return
        prev = s
    acc.outcomes.add(digest(["retry", c, sorted(seen)]))


PERIODS = [timedelta(seconds=1), timedelta(seconds=1, microseconds=1), timedelta(seconds=2.5), timedelta(hours=1),
           # thorough tier only:
           timedelta(microseconds=1), timedelta(microseconds=7), timedelta(milliseconds=100), timedelta(seconds=0.333333),
           timedelta(days=1), timedelta(days=7, microseconds=3), timedelta(days=400)]


def next_jobs(tier="quick"):
    out = []
    for pi in range(4 if tier == "quick" else len(PERIODS)):
        for k in (-1, 0, 1, 2, 7) if tier == "quick" else (-2, -1, 0, 1, 2, 3, 7, 1000, 10 ** 6 + 1):
            for du in ("none", "past", "now", "future"):
                for base in ("timestamp", "next", "delay_until"):
                    out.append(dict(t="next", p=pi, k=k, du=du, base=base))
    return out


def run_next(c, acc):
    p = PERIODS[c["p"]]
    t0 = datetime(2001, 9, 9, 12, 0, 0)
    offs = [c["k"] * p + i * US for i in range(-3, 4)] + [c["k"] * p + p / 2, c["k"] * p + p / 3]
    for off in offs:
        try:
            now = t0 + off
            now + 2 * p  # results beyond year 9999 are outside the grid
        except OverflowError:
            continue
        # pin the clock
        CLOCK.reset(None)
        CLOCK.offset_ns = ((now - CLOCK.now()) // US) * 1000  # integer arithmetic: exact for far-away instants
        if CLOCK.now() != now:
            yield ("harness", f"could not pin the clock to {now}")
            return
        du = {"none": None, "past": now - timedelta(seconds=5), "now": now, "future": now + timedelta(seconds=7, microseconds=3)}[c["du"]]
        if c["base"] == "timestamp":
            delay = DelayProperties(delay_until=du, defer_by=p)
            base = t0
            if du is not None and du > t0 and du <= now:
                base = du  # the first run was at deferred_until: periods count from there
            params = Parameters(timestamp=t0, delay=delay)
        elif c["base"] == "next":
            # a message that ran before: its previous scheduled time is the time base
            delay = DelayProperties(delay_until=du, defer_by=p, next_execution_time=t0)
            base = t0
            params = Parameters(timestamp=t0 + (off / 2 if off > timedelta(0) else timedelta(0)), delay=delay)
        else:
            # created earlier, first run at deferred_until = t0 (already passed or not)
            if c["du"] != "none":
                continue
            delay = DelayProperties(delay_until=t0, defer_by=p)
            base = t0
            params = Parameters(timestamp=t0 - timedelta(seconds=3.3), delay=delay)
            du = t0
        acc.executions += 1
        try:
            r = params.compute_next_execution_time
        except Exception as e:  # noqa: BLE001
            yield ("next-exception", f"compute_next_execution_time raised {type(e).__name__}: {e} for {c} off={off}")
            return
        acc.outcomes.add(digest(["next", c, str(off), str(r - now) if r else None]))
        if du is not None and du > now:
            if r != du:
                yield ("next-deferred-until", f"deferred_until {du} is still ahead of now {now} but the next run is {r}")
                return
            continue
        if r is None:
            yield ("next-none", f"periodic job got no next execution time ({c}, off={off})")
            return
        if not (now < r <= now + p):
            yield ("next-window", f"now={now}, period={p}: next={r} is not within (now, now + period] ({c})")
            return
        n, rem = divmod(r - base, p)
        if rem != timedelta(0):
            yield ("next-grid", f"next={r} is not a whole number of periods ({p}) after the time base {base} ({c}, off={off})")
            return
    CLOCK.reset(None)


def overdue_jobs():
    return [dict(t="overdue", tz=tz, ttl=ttl) for tz in ("naive", "utc", "+05:30") for ttl in (1.0, 86400.0, 0.000001, None)]


class _FakeJobConn:
    args_bucket_broker = None
    results_bucket_broker = None


def run_overdue(c, acc):
    from repid import Job

    tz = {"naive": None, "utc": timezone.utc, "+05:30": timezone(timedelta(hours=5, minutes=30))}[c["tz"]]
    ttl = None if c["ttl"] is None else timedelta(seconds=c["ttl"])
    for d in (-1, 0, 1):
        CLOCK.reset(None)
        ts = CLOCK.now(tz)
        if ttl is not None:
            target = ts + ttl + d * US
            CLOCK.offset_ns = round((target - ts).total_seconds() * 1e6) * 1000
        want = ttl is not None and d > 0
        objs = {
            "Parameters": Parameters(timestamp=ts, ttl=ttl),
            "ArgsBucket": ArgsBucket(data="", timestamp=ts, ttl=ttl),
            "ResultBucket": ResultBucket(data="", started_when=0, finished_when=0, timestamp=ts, ttl=ttl),
        }
        for name, o in objs.items():
            acc.executions += 1
            got = o.is_overdue
            acc.outcomes.add(digest(["overdue", name, c, d, got]))
            if got != want:
                yield ("overdue", f"{name}(ttl={ttl}, tz={c['tz']}).is_overdue is {got} at expiry{d:+d}us, expected {want}")
                return
        if c["tz"] == "naive" and (ttl is None or ttl >= timedelta(seconds=1)):
            CLOCK.reset(None)
            j = Job("j", ttl=ttl, _connection=_FakeJobConn())
            if ttl is not None:
                CLOCK.offset_ns = round((ttl + d * US).total_seconds() * 1e6) * 1000
            acc.executions += 1
            if j.is_overdue != want:
                yield ("overdue", f"Job(ttl={ttl}).is_overdue is {j.is_overdue} at expiry{d:+d}us, expected {want}")
                return
    CLOCK.reset(None)


def jobs(tier):
    cs = retry_jobs(tier) + next_jobs(tier) + overdue_jobs()
    n = 40
    return [dict(cases=cs[i:i + n]) for i in range(0, len(cs), n)]


def run_job(job):
    acc = Acc()
    for c in job["cases"]:
        fn = {"retry": run_retry, "next": run_next, "overdue": run_overdue}[c["t"]]
        acc.phases[c["t"]] += 1
        for sig, what in fn(c, acc):
            acc.violations.append(dict(signature=sig, what=what, job=dict(cases=[c])))
        if len(acc.samples) < 3:
            acc.samples.append(c)
    acc.choice_points = acc.executions
    return acc.to_dict()
