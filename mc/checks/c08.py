"""C08 - Arguments bind to the actor signature identically under every converter.

Bounded-exhaustive: every actor signature with up to 3 parameters (positional-only /
positional-or-keyword / keyword-only, with and without defaults, optional *args, **kwargs and a
dependency parameter) x every payload (each subset of the parameter names, 0-2 extra keys, the empty
payload) x converter; each case runs through the real `_Processor.actor_run`.
"""
import asyncio
import inspect
import itertools
import json
from typing import Annotated, Any, List, Optional, Union

from repid import Connection, Depends, InMemoryMessageBroker
from repid._processor import _Processor
from repid.actor import ActorData
from repid.config import Config
from repid.converter import BasicConverter, DefaultConverter, PydanticConverter
from repid.data._key import RoutingKey
from repid.data._parameters import Parameters
from repid.retry_policy import default_retry_policy_factory
from repid.router import RouterDefaults

from ..explore import Acc, digest

ID = "C08"
LEVEL = "exploration"
RULE = ("all signatures with <= 3 (quick) / <= 4 (thorough) parameters over {positional-only, positional-or-keyword, keyword-only} x "
        "{default, no default} in every order Python accepts, x optional *args, **kwargs, dependency parameter; x all "
        "payloads (subsets of names, 0-2 extras, '', '{}'); x {Basic, Pydantic, default selection}; distinct and "
        "non-trivial = distinct (signature, payload, converter) with at least one parameter or extra key")
ASSUMPTIONS = ["values are ints (they already have the annotated type)", "at most 3 (thorough: 4) declared parameters and 2 extra keys"]

KINDS = ["PO", "PK", "KO"]
FRESH_PROCESS_PER_JOB = True  # converters of other actors must not influence a case (see POLLUTERS)


def provider():
    return 777


def signatures(maxn=3):
    out = []
    for n in range(0, maxn + 1):
        for kinds in itertools.combinations_with_replacement(range(3), n):
            for defaults in itertools.product((False, True), repeat=n):
                # python: among PO+PK a parameter without default may not follow one with default
                pos = [d for k, d in zip(kinds, defaults) if k < 2]
                if any(a and not b for a, b in zip(pos, pos[1:])):
                    continue
                for va in (False, True):
                    for vk in (False, True):
                        for dep in (False, True):
                            out.append(dict(kinds=list(kinds), defaults=list(defaults), va=va, vk=vk, dep=dep))
    return out


def source(sig, annotate=True):
    parts = []
    n = len(sig["kinds"])
    ann = ": int" if annotate else ""
    seen_ko = False
    for i, (k, d) in enumerate(zip(sig["kinds"], sig["defaults"])):
        if k == 2 and not seen_ko:
            # end of positional section
            if any(kk == 0 for kk in sig["kinds"]) and "/" not in parts:
                last_po = max(j for j, kk in enumerate(sig["kinds"]) if kk == 0)
            parts.append("*args" if sig["va"] else "*")
            seen_ko = True
        parts.append(f"p{i}{ann}" + (f" = {100 + i}" if d else ""))
        if k == 0 and (i + 1 == n or sig["kinds"][i + 1] != 0):
            parts.append("/")
    if not seen_ko:
        if sig["va"]:
            parts.append("*args")
        elif sig["dep"]:
            parts.append("*")
    if sig["dep"]:
        parts.append("d: Annotated[int, Depends(provider)]")
    if sig["vk"]:
        parts.append("**kwargs")
    params = ", ".join(parts)
    names = [f"p{i}" for i in range(n)]
    items = [f"{x}={x}" for x in names] + (["args=list(args)"] if sig["va"] else []) + \
        (["kwargs=dict(kwargs)"] if sig["vk"] else []) + (["d=d"] if sig["dep"] else [])
    rec = "dict(" + ", ".join(items) + ")"
    return f"async def fn({params}):\n    calls.append({rec})\n    return 'done'\n"


def payloads(sig):
    names = [f"p{i}" for i in range(len(sig["kinds"]))]
    out = [("empty", ""), ("braces", "{}")]
    for r in range(0, len(names) + 1):
        for present in itertools.combinations(names, r):
            for nx in (0, 1, 2):
                d = {}
                # extras first and last, to see that order does not matter
                if nx >= 1:
                    d["x0"] = 900
                for nm in present:
                    d[nm] = int(nm[1:]) + 1
                if nx == 2:
                    d["x1"] = 901
                if not d:
                    continue
                out.append(("json", json.dumps(d)))
    return out


def expected(sig, payload_text):
    """(enters_body, expected record) by the binding rule of the statement."""
    names = [f"p{i}" for i in range(len(sig["kinds"]))]
    p = json.loads(payload_text) if payload_text else {}
    rec = {}
    for i, nm in enumerate(names):
        if nm in p:
            rec[nm] = p[nm]
        elif sig["defaults"][i]:
            rec[nm] = 100 + i
        else:
            return False, None
    extras = {k: v for k, v in p.items() if k not in names}
    rec["_extras"] = extras if (sig["va"] or sig["vk"]) else {}
    if sig["dep"]:
        rec["d"] = 777
    return True, rec


def normalise(call, sig):
    rec = {k: v for k, v in call.items() if k.startswith("p") or k == "d"}
    ex = {}
    args = call.get("args", [])
    kw = call.get("kwargs", {})
    rec["_extras_args"] = list(args)
    rec["_extras_kwargs"] = dict(kw)
    return rec


CONVERTERS = {"basic": BasicConverter, "pydantic": PydanticConverter, "default": DefaultConverter,
              "router-default": None}


# A program has many actors.  Before every case the converters of these other actors are built, so
# that state shared between converter instances (there must be none) shows up deterministically:
# the same parameter names in every kind, with and without defaults, with *args / **kwargs.
POLLUTERS = [
    dict(kinds=[0, 0, 0], defaults=[False, False, True], va=True, vk=False, dep=False),
    dict(kinds=[1, 1, 1], defaults=[False, True, True], va=False, vk=True, dep=True),
    dict(kinds=[2, 2, 2], defaults=[True, False, True], va=True, vk=True, dep=False),
    dict(kinds=[2, 2, 2], defaults=[False, False, False], va=False, vk=False, dep=True),
    dict(kinds=[0, 1, 2], defaults=[False, False, False], va=True, vk=False, dep=False),
    dict(kinds=[2, 2, 2, 2], defaults=[False, True, False, True], va=True, vk=False, dep=False),
]


def pollute(conv_name):
    for ps in POLLUTERS:
        ns = dict(Annotated=Annotated, Depends=Depends, provider=provider, calls=[])
        exec(source(ps), ns)  # noqa: S102
        for cls in (BasicConverter, PydanticConverter):
            try:
                cls(ns["fn"])
            except ValueError:
                pass


def run_case(sig, conv_name, conn, proc):
    pollute(conv_name)
    ns = dict(Annotated=Annotated, Depends=Depends, provider=provider, calls=[])
    src = source(sig)
    try:
        exec(src, ns)  # noqa: S102 - generated actor
    except SyntaxError as e:
        return [("harness", f"generated signature does not compile: {src!r}: {e}")], 0, []
    fn = ns["fn"]
    calls = ns["calls"]
    try:
        conv_cls = CONVERTERS[conv_name] or RouterDefaults().converter
        conv = conv_cls(fn)
    except ValueError as e:
        # pydantic converter refuses *args / **kwargs when the actor is declared: not a binding question
        if (sig["va"] or sig["vk"]) and conv_name != "basic":
            return [], 0, []
        return [("declaration", f"{conv_name} converter rejects {src.splitlines()[0]!r}: {e}")], 0, []
    actor = ActorData(fn=fn, name="fn", queue="q", retry_policy=default_retry_policy_factory(), converter=conv)
    key = RoutingKey(topic="fn", queue="q", id_="m0")
    viol = []
    n = 0
    outs = []
    for kind, text in payloads(sig):
        calls.clear()
        n += 1
        res = asyncio.get_event_loop().run_until_complete(proc.actor_run(actor, key, Parameters(), text, conn))
        enters, want = expected(sig, text)
        outs.append((text, res.success, list(calls)))
        head = f"{src.splitlines()[0]} with payload {text!r} under {conv_name}"
        if not enters:
            if calls:
                viol.append(("made-up-value", f"{head}: a parameter without default is missing from the payload, yet the "
                                              f"actor ran with {calls[0]}"))
            elif res.success:
                viol.append(("missing-not-failed", f"{head}: execution reported success"))
            continue
        if not calls:
            cls = "empty-payload-rejected" if text == "" else ("extras-break-call" if want["_extras"] else "valid-payload-rejected")
            viol.append((cls, f"{head}: the actor was not run ({type(res.exception).__name__}: {res.exception}), expected call with {want}"))
            continue
        if len(calls) != 1:
            viol.append(("call-count", f"{head}: actor ran {len(calls)} times"))
            continue
        got = calls[0]
        for k, v in want.items():
            if k == "_extras":
                ga, gk = got.get("args", []), got.get("kwargs", {})
                # extras only in a catch-all: each extra value exactly once, either positionally or by name
                flat = sorted(list(ga) + list(gk.values()))
                if flat != sorted(v.values()) or any(kk not in v for kk in gk):
                    viol.append(("extras", f"{head}: extras {v} arrived as *args={ga} **kwargs={gk}"))
            elif got.get(k) != v:
                viol.append(("wrong-binding", f"{head}: {k} received {got.get(k)!r}, expected {v!r}"))
        if not res.success:
            viol.append(("valid-payload-rejected", f"{head}: actor ran but the execution reported failure {res.exception!r}"))
        elif json.loads(res.data) != "done":
            viol.append(("output", f"{head}: encoded return value {res.data!r}"))
    return viol, n, outs


def output_roundtrip():
    vals = [None, True, 0, -1, 1.5, 1e308, "", "a:b", "é ", [], [1, [2]], {}, {"k": {"k": [None]}}]
    viol = []

    async def f():
        return None

    async def g() -> Any:
        return None

    n = 0
    for conv in (BasicConverter(f), PydanticConverter(f), PydanticConverter(g)):
        for v in vals:
            n += 1
            try:
                back = json.loads(conv.convert_outputs(v))
            except Exception as e:  # noqa: BLE001
                viol.append(("output", f"{type(conv).__name__}.convert_outputs({v!r}) raised {e!r}"))
                continue
            if back != v:
                viol.append(("output", f"{type(conv).__name__}.convert_outputs({v!r}) decodes to {back!r}"))

    # annotated return types (Pydantic validates and encodes through the annotation)
    from pydantic import BaseModel

    class Point(BaseModel):
        x: int
        y: list[int] = []

    async def h_int() -> int:
        return 0

    async def h_list() -> list[int]:
        return []

    async def h_dict() -> dict[str, float]:
        return {}

    async def h_model() -> Point:
        return Point(x=0)

    async def h_opt() -> int | None:
        return None

    async def h_opt2() -> Optional[int]:  # noqa: UP007
        return None

    async def h_union() -> Union[int, str]:  # noqa: UP007
        return 0

    async def h_tlist() -> List[Point]:  # noqa: UP006
        return []

    async def h_tuple() -> tuple[int, str]:
        return (0, "")

    typed = [
        (h_int, [0, -7, 2 ** 40]), (h_list, [[], [1, 2, 3]]), (h_dict, [{}, {"a": 1.5, "b": -2.0}]),
        (h_opt, [None, 5]), (h_opt2, [None, 5]), (h_union, [3, "x"]),
        (h_tlist, [[], [Point(x=1), Point(x=2, y=[3])]]), (h_tuple, [(1, "a")]),
        (h_model, [Point(x=1), Point(x=2, y=[3, 4]), {"x": 5, "y": [6]}]),
    ]
    for fn, values in typed:
        try:
            conv = PydanticConverter(fn)
        except Exception as e:  # noqa: BLE001
            n += 1
            viol.append(("output-annotation", f"an actor annotated `-> {inspect.signature(fn).return_annotation}` cannot be "
                                              f"registered with the Pydantic converter: {e!r}"))
            continue
        for v in values:
            n += 1
            want = json.loads(json.dumps(v, default=lambda o: o.model_dump()))
            try:
                back = json.loads(conv.convert_outputs(v))
            except Exception as e:  # noqa: BLE001
                viol.append(("output", f"PydanticConverter({fn.__name__}).convert_outputs({v!r}) raised {e!r}"))
                continue
            if back != want:
                viol.append(("output", f"PydanticConverter({fn.__name__}).convert_outputs({v!r}) decodes to {back!r}"))
    return viol, n


def jobs(tier):
    sigs = signatures(3 if tier == "quick" else 4)
    convs = list(CONVERTERS)
    items = [dict(sig=s, conv=c) for s in sigs for c in convs]
    n = 80
    out = [dict(items=items[i:i + n]) for i in range(0, len(items), n)]
    out.append(dict(items=[], outputs=True))
    return out


def run_job(job):
    acc = Acc()
    conn = Connection(InMemoryMessageBroker())
    proc = _Processor(conn)
    loop = asyncio.new_event_loop()
    asyncio.set_event_loop(loop)
    try:
        agree = {}
        for it in job["items"]:
            viol, n, outs = run_case(it["sig"], it["conv"], conn, proc)
            acc.executions += n
            acc.choice_points += n
            acc.phases[it["conv"]] += n
            for text, ok, calls in outs:
                acc.outcomes.add(digest([it["sig"], it["conv"], text, ok, calls]))
            seen = set()
            for sig, what in viol:
                if sig in seen:
                    continue
                seen.add(sig)
                shape = ("varargs" if it["sig"]["va"] else "") + ("varkw" if it["sig"]["vk"] else "") or "plain"
                acc.violations.append(dict(signature=f"{it['conv']} {sig} {shape}", what=what, job=dict(items=[it])))
            if len(acc.samples) < 2 and outs:
                acc.samples.append(dict(signature=source(it["sig"]).splitlines()[0], converter=it["conv"],
                                        payload=outs[-1][0], received=outs[-1][2]))
        if job.get("outputs"):
            viol, n = output_roundtrip()
            acc.executions += n
            for sig, what in viol:
                acc.violations.append(dict(signature=f"{sig}", what=what, job=job))
    finally:
        loop.close()
        asyncio.set_event_loop(None)
    return acc.to_dict()
