"""Builds a repid Connection on a chosen broker kind inside a VLoop, with uniform observers
(where is every message?) and spies at the broker boundary."""
from __future__ import annotations

import asyncio
import logging
from datetime import timedelta

from repid import Connection, Repid
from repid.connections.in_memory import InMemoryBucketBroker, InMemoryMessageBroker
from repid.data._key import RoutingKey
from repid.data._parameters import DelayProperties, Parameters, ResultProperties, RetriesProperties

from .vloop import CLOCK, VLoop, check_virtual_stamp

# as in a process that never configured logging: warnings and errors are formatted (so that a
# log call which raises is noticed), debug/info are not; nothing is printed (NullHandler)
logging.getLogger("repid").setLevel(logging.WARNING)
logging.getLogger("repid").propagate = False
logging.getLogger("asyncio").disabled = True

KINDS = ("mem", "redis", "amqp")
SPIED = ("enqueue", "ack", "nack", "reject", "requeue")
import contextvars

_SPY_DEPTH = contextvars.ContextVar("mc_spy_depth", default=0)


def params_view(p) -> dict:
    """Property-relevant fields of a Parameters object as plain data."""
    if p is None:
        return None
    check_virtual_stamp(p.timestamp)
    d = p.delay
    return dict(
        tried=p.retries.already_tried,
        max=p.retries.max_amount,
        timeout=p.execution_timeout.total_seconds(),
        ttl=None if p.ttl is None else p.ttl.total_seconds(),
        ts=p.timestamp.isoformat(),
        delay_until=None if d.delay_until is None else d.delay_until.isoformat(),
        defer_by=None if d.defer_by is None else d.defer_by.total_seconds(),
        cron=d.cron,
        next=None if d.next_execution_time is None else d.next_execution_time.isoformat(),
        result=None if p.result is None else dict(
            id=p.result.id_, ttl=None if p.result.ttl is None else p.result.ttl.total_seconds()
        ),
    )


def bucket_view(b) -> dict:
    d = dict(data=b.data, ttl=None if b.ttl is None else b.ttl.total_seconds(), ts=b.timestamp.isoformat())
    check_virtual_stamp(b.timestamp)
    for k in ("success", "exception", "started_when", "finished_when"):
        if hasattr(b, k):
            d[k] = getattr(b, k)
    return d


class World:
    def __init__(self, kind: str, loop: VLoop, *, buckets: str | None = None, chooser=None,
                 clients: int = 1, bucket_kind: str | None = None):
        assert kind in KINDS
        self.kind = kind
        self.loop = loop
        self.chooser = chooser
        self.log: list = []  # (vt_ns, event, ...) – spies and actors append here
        self.fail_calls: set = set()  # {(op name, n)}: the n-th top-level call of op raises ConnectionError
        self._call_counts: dict = {}
        self.server = None
        self.conns: list[Connection] = []
        self.brokers = []
        for i in range(clients):
            self.conns.append(self._make_conn(i, buckets, bucket_kind))
        self.conn = self.conns[0]
        self.broker = self.conn.message_broker
        self._set_magic(self.conn)

    # -- construction -------------------------------------------------------------------
    def _make_conn(self, i: int, buckets, bucket_kind) -> Connection:
        if self.kind == "mem":
            if i == 0:
                mb = InMemoryMessageBroker()
            else:  # several "clients" of the in-memory broker share its state
                mb = InMemoryMessageBroker()
                mb.queues = self.brokers[0].queues
        elif self.kind == "redis":
            from .env import fake_redis

            if self.server is None:
                self.server = fake_redis.Server(self.loop, self.chooser)
            mb = fake_redis.make_broker(self.server, f"c{i}")
        else:
            from .env import fake_amqp

            if self.server is None:
                self.server = fake_amqp.Server(self.loop, self.chooser)
            mb = fake_amqp.make_broker(self.server, f"c{i}")
        self.brokers.append(mb)
        ab = rb = None
        if buckets:
            bk = bucket_kind or ("redis" if self.kind == "redis" else "mem")
            if bk == "redis":
                from .env import fake_redis

                if getattr(self, "bucket_server", None) is None:
                    self.bucket_server = (
                        self.server if self.kind == "redis" else fake_redis.Server(self.loop, self.chooser)
                    )
                ab = fake_redis.make_bucket_broker(self.bucket_server, f"ab{i}", result=False)
                rb = fake_redis.make_bucket_broker(self.bucket_server, f"rb{i}", result=True)
            else:
                if i == 0:
                    ab = InMemoryBucketBroker()
                    rb = InMemoryBucketBroker(use_result_bucket=True)
                else:
                    ab = InMemoryBucketBroker()
                    rb = InMemoryBucketBroker(use_result_bucket=True)
                    ab._InMemoryBucketBroker__storage = self.conns[0].args_bucket_broker._InMemoryBucketBroker__storage
                    rb._InMemoryBucketBroker__storage = self.conns[0].results_bucket_broker._InMemoryBucketBroker__storage
            if buckets == "args":
                rb = None
            elif buckets == "results":
                ab = None
        conn = Connection(mb, ab, rb)
        self._spy(mb, i)
        for role, bb in (("args", ab), ("results", rb)):
            if bb is not None:
                self._spy_bucket(bb, role, i)
        return conn

    @staticmethod
    def _set_magic(conn) -> None:
        Repid._Repid__local.connection = conn

    @staticmethod
    def clear_magic() -> None:
        loc = Repid._Repid__local
        if hasattr(loc, "connection"):
            delattr(loc, "connection")

    def _spy(self, broker, client: int) -> None:
        """Record top-level and nested broker calls at the boundary below the middleware."""
        for name in SPIED:
            w = getattr(broker, name)
            inner = w.fn
            w.fn = self._mkspy(name, inner, client)

    def _mkspy(self, name, inner, client):
        log = self.log
        loop = self.loop
        world = self

        async def spy(key, *a, **kw):
            params = a[1] if len(a) > 1 else kw.get("params")
            depth = _SPY_DEPTH.get()
            rec = [loop._ns, "call", name, key.id_, client,
                   params_view(params) if name in ("enqueue", "requeue") else None, None, depth,
                   a[0] if a else kw.get("payload")]
            log.append(rec)
            if depth == 0 and world.fail_calls:
                n = world._call_counts.get(name, 0)
                world._call_counts[name] = n + 1
                if (name, n) in world.fail_calls:
                    rec[6] = ("exc", "ConnectionError", loop._ns)
                    log.append([loop._ns, "ret", name, key.id_, client, "ConnectionError"])
                    raise ConnectionError(f"injected fault: {name} #{n}")
            _SPY_DEPTH.set(depth + 1)
            try:
                r = await inner(key, *a, **kw)
            except BaseException as e:  # noqa: BLE001
                rec[6] = ("exc", type(e).__name__, loop._ns)
                log.append([loop._ns, "ret", name, key.id_, client, type(e).__name__])
                raise
            finally:
                _SPY_DEPTH.set(depth)
            rec[6] = ("ok", None, loop._ns)
            log.append([loop._ns, "ret", name, key.id_, client, None])
            return r

        spy.__name__ = name
        return spy

    def _spy_bucket(self, bb, role, client) -> None:
        """Log bucket-broker calls below the middleware; `self.bucket_faults` may make them raise."""
        log = self.log
        loop = self.loop
        world = self
        for name in ("get_bucket", "store_bucket", "delete_bucket"):
            w = getattr(bb, name)
            inner = w.fn

            def mk(name, inner):
                async def spy(id_, *a, **kw):
                    payload = a[0] if a else kw.get("payload")
                    rec = [loop._ns, "bucket", name, id_, role,
                           None if payload is None else bucket_view(payload), None]
                    log.append(rec)
                    fault = world.bucket_fault(role, name, id_)
                    if fault is not None:
                        rec[6] = "fault"
                        raise fault
                    r = await inner(id_, *a, **kw)
                    rec[6] = "ok"
                    return r
                spy.__name__ = name
                return spy

            w.fn = mk(name, inner)

    def bucket_fault(self, role, name, id_):
        """Fault choice at every bucket call: default succeed; deviation = raise."""
        if getattr(self, "bucket_down", False) and name == "store_bucket":
            # not a choice: the result store is unavailable for the whole run
            return ConnectionError(f"{role} bucket broker unavailable ({name})")
        if not getattr(self, "bucket_faults", False) or self.chooser is None:
            return None
        if self.chooser.choose(f"fault:{role}.{name}", 2):
            return ConnectionError(f"{role} bucket broker unavailable ({name})")
        return None

    async def connect(self) -> None:
        for c in self.conns:
            await c.connect()

    # -- helpers ---------------------------------------------------------------------------
    def key(self, id_: str, topic: str = "job", queue: str = "q", priority: int = 5) -> RoutingKey:
        return RoutingKey(id_=id_, topic=topic, queue=queue, priority=priority)

    @staticmethod
    def params(*, retries=0, tried=0, timeout=600.0, ttl=None, defer_by=None, delay_until=None,
               next_in=None, result=None, ts_shift=0.0) -> Parameters:
        now = CLOCK.now()
        return Parameters(
            execution_timeout=timedelta(seconds=timeout),
            retries=RetriesProperties(max_amount=retries, already_tried=tried),
            ttl=None if ttl is None else timedelta(seconds=ttl),
            delay=DelayProperties(
                delay_until=None if delay_until is None else now + timedelta(seconds=delay_until),
                defer_by=None if defer_by is None else timedelta(seconds=defer_by),
                next_execution_time=None if next_in is None else now + timedelta(seconds=next_in),
            ),
            result=None if result is None else ResultProperties(id_=result, ttl=None),
            timestamp=now + timedelta(seconds=ts_shift),
        )

    # -- observation -------------------------------------------------------------------------
    def observe(self) -> dict:
        """id -> sorted list of (place, queue, params_view, payload).  Places:
        waiting, delayed, dead, held (marked in flight), orphan (data without a queue entry,
        Redis only - not a place, reported separately under key '__orphans__')."""
        if self.kind == "mem":
            return self._observe_mem()
        return self.server.observe(self)

    def _observe_mem(self) -> dict:
        out: dict = {}

        def add(m, place, q):
            out.setdefault(m.key.id_, []).append(
                dict(place=place, queue=q, topic=m.key.topic, prio=m.key.priority,
                     params=params_view(m.parameters), payload=m.payload)
            )

        for qname, q in self.broker.queues.items():
            for m in list(q.simple._queue):
                add(m, "waiting", qname)
            for t, ms in sorted(q.delayed.items()):
                for m in ms:
                    add(m, "delayed", qname)
            for m in q.dead:
                add(m, "dead", qname)
            for m in sorted(q.processing, key=lambda m: m.key.id_):
                add(m, "held", qname)
        return out


def make_loop() -> VLoop:
    return VLoop()


def teardown(loop: VLoop) -> None:
    try:
        loop.shutdown()
    finally:
        World.clear_magic()
        _reset_globals()


def _reset_globals() -> None:
    from repid._processor import _Processor

    ar = _Processor.__dict__.get("actor_run")
    if hasattr(ar, "_repid_signal_emitter") or hasattr(getattr(ar, "__func__", None), "_repid_signal_emitter"):
        # class-level wrapper (older trees): reset what the last runner left behind
        getattr(ar, "__func__", ar)._repid_signal_emitter = None
