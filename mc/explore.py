"""Exploration primitives: choice points with deviation-bounded enumeration, and a
deterministic parallel map over jobs."""
from __future__ import annotations

import hashlib
import json
import multiprocessing as mp
import os
import sys
import traceback
from collections import Counter

from .vloop import HarnessError


class Chooser:
    """Every source of non-determinism asks `choose(label, n)`; 0 is the default answer.
    `deviations` maps choice-point index -> alternative.  A replayed deviation that is out
    of range, or whose label differs from the recorded one, is a hard error."""

    __slots__ = ("dev", "labels", "points", "used")

    def __init__(self, deviations=None):
        # deviations: list of [index, alt, label]
        self.dev = {int(i): (int(a), l) for i, a, l in (deviations or [])}
        self.points: list[tuple[str, int]] = []
        self.used = 0

    def choose(self, label: str, n: int) -> int:
        i = len(self.points)
        self.points.append((label, n))
        d = self.dev.get(i)
        if d is None:
            return 0
        alt, lab = d
        if lab != label or alt >= n:
            raise HarnessError(
                f"replay divergence at choice {i}: recorded {lab!r}/{alt}, now {label!r}/{n}"
            )
        self.used += 1
        return alt

    def finish(self) -> None:
        if self.used != len(self.dev):
            raise HarnessError(
                f"replay divergence: {len(self.dev) - self.used} recorded deviations never reached"
            )


def alternatives(points, after: int = -1, want=None):
    """All single deviations available in an execution whose choice points were `points`,
    strictly after index `after`."""
    out = []
    for i, (label, n) in enumerate(points):
        if i <= after or n < 2:
            continue
        if want is not None and not want(label):
            continue
        for alt in range(1, n):
            out.append([i, alt, label])
    return out


def digest(obj) -> str:
    return hashlib.sha1(json.dumps(obj, sort_keys=True, default=str).encode()).hexdigest()[:16]


# --------------------------------------------------------------------------------------
# parallel map
# --------------------------------------------------------------------------------------
_WORKER_FN = None


def _init_worker(modname: str, fnname: str) -> None:
    global _WORKER_FN
    import importlib

    mod = importlib.import_module(modname)
    _WORKER_FN = getattr(mod, fnname)
    from . import vloop

    vloop.install_seams()
    # everything inherited from the parent (the whole job list) is long-lived: keep it out of the
    # collections that executions run at fixed points
    import gc

    gc.freeze()
    from . import linecov

    linecov.start()


def _call(job):
    try:
        r = _WORKER_FN(job)
        if os.environ.get("MC_COVER"):
            from . import linecov

            linecov.dump()
        return ("ok", r)
    except HarnessError as e:
        return ("harness", f"{e}\n{traceback.format_exc()}\njob={json.dumps(job, default=str)[:2000]}")
    except BaseException as e:  # noqa: BLE001
        return ("crash", f"{type(e).__name__}: {e}\n{traceback.format_exc()}\njob={json.dumps(job, default=str)[:2000]}")


def nprocs() -> int:
    try:
        n = len(os.sched_getaffinity(0))
    except AttributeError:
        n = os.cpu_count() or 1
    return max(1, min(16, n))


def pmap(modname: str, fnname: str, jobs: list, *, chunksize: int | None = None, fresh: bool = False):
    """Run fn(job) for every job on all cores; results in job order.  Any harness error or
    crash in a worker aborts the whole run with exit status 2 (never reported as a verdict)."""
    if not jobs:
        return []
    procs = min(nprocs(), len(jobs))
    if procs <= 1 or os.environ.get("MC_SERIAL"):
        _init_worker(modname, fnname)
        raw = [_call(j) for j in jobs]
    else:
        if chunksize is None:
            chunksize = max(1, min(64, len(jobs) // (procs * 8)))
        ctx = mp.get_context("fork")
        # fresh: every job runs in a newly forked process, so that module-level state a job leaves
        # behind (the code under test may have some) cannot leak into the next job
        with ctx.Pool(procs, initializer=_init_worker, initargs=(modname, fnname),
                      maxtasksperchild=1 if fresh else None) as pool:
            raw = pool.map(_call, jobs, chunksize=1 if fresh else chunksize)
    out = []
    for status, val in raw:
        if status != "ok":
            sys.stderr.write(f"HARNESS-ERROR ({status}): {val}\n")
            sys.stderr.flush()
            raise SystemExit(2)
        out.append(val)
    return out


class Acc:
    """Accumulates what one job (or many) covered; merged across processes."""

    def __init__(self):
        self.executions = 0
        self.handles = 0
        self.choice_points = 0
        self.outcomes = set()
        self.phases = Counter()
        self.violations = []  # dicts: signature, what, job, detail
        self.samples = []
        self.caps = []
        self.extra = Counter()

    def to_dict(self):
        return dict(
            executions=self.executions,
            handles=self.handles,
            choice_points=self.choice_points,
            outcomes=sorted(self.outcomes),
            phases=dict(self.phases),
            violations=self.violations,
            samples=self.samples[:3],
            caps=self.caps,
            extra=dict(self.extra),
        )

    @staticmethod
    def merge(dicts):
        a = Acc()
        for d in dicts:
            a.executions += d["executions"]
            a.handles += d["handles"]
            a.choice_points += d["choice_points"]
            a.outcomes.update(d["outcomes"])
            a.phases.update(d["phases"])
            a.violations.extend(d["violations"])
            if len(a.samples) < 6:
                a.samples.extend(d["samples"][:1])
            a.caps.extend(d["caps"])
            a.extra.update(d["extra"])
        return a
