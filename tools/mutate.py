#!/usr/bin/env python3
"""Mutation sweep: do the checks notice small realistic changes that the test-suite lets through?

Development aid, not a registered command.  Works on scratch copies under $MUT (default /root/mut);
/repo is only read.

  tools/mutate.py gen                 enumerate mutants of the property-relevant files -> $MUT/mutants.json
  tools/mutate.py tests [-j N]        phase 1: which mutants does the repository's own test-suite let through?
  tools/mutate.py checks [--cpus L]   phase 2: run the quick checks (cheapest first) on every survivor
  tools/mutate.py report              table -> stdout (and /verif/mutation/summary.json)

Operators: comparison swap, and<->or, negated condition, True<->False, small integer +1, + <-> -,
deletion of a call statement, `await asyncio.shield(x)` -> `await x`.
"""
import argparse
import ast
import json
import os
import re
import shutil
import subprocess
import sys
from concurrent.futures import ThreadPoolExecutor

MUT = os.environ.get("MUT", "/root/mut")
REPO = "/repo"
FILES = [
    "_runner.py", "_processor.py", "worker.py", "message.py", "job.py", "router.py", "converter.py", "queue.py",
    "_asyncify.py", "retry_policy.py", "health_check_server.py", "serializer.py",
    "data/_parameters.py", "data/_buckets.py", "data/_key.py",
    "_utils/args_bucket_in_message_id.py", "_utils/get_dependency.py", "_utils/json_encoder.py",
    "middlewares/wrapper.py", "middlewares/middleware.py",
    "dependencies/depends.py", "dependencies/message_dependency.py",
    "connections/abc.py",
    "connections/in_memory/message_broker.py", "connections/in_memory/consumer.py", "connections/in_memory/bucket_broker.py",
    "connections/in_memory/utils.py",
    "connections/redis/message_broker.py", "connections/redis/consumer.py", "connections/redis/bucket_broker.py",
    "connections/redis/utils.py",
    "connections/rabbitmq/message_broker.py", "connections/rabbitmq/consumer.py", "connections/rabbitmq/utils.py",
]
CMP = {ast.Lt: ast.LtE, ast.LtE: ast.Lt, ast.Gt: ast.GtE, ast.GtE: ast.Gt, ast.Eq: ast.NotEq, ast.NotEq: ast.Eq,
       ast.Is: ast.IsNot, ast.IsNot: ast.Is, ast.In: ast.NotIn, ast.NotIn: ast.In}
# cheapest first (seconds of a quick run on the unchanged tree)
CHECK_ORDER = ["C19", "C10", "C05", "C12", "C07", "C17", "C16", "C13", "C20", "C08", "C18", "C02", "C14", "C09", "C11",
               "C01", "C06", "C04", "C15", "C03"]


# which checks exercise which files (cheapest first); an undetected mutant costs about a minute
BROKER = ["C05", "C12", "C07", "C13", "C14", "C02", "C01", "C15"]
FILE_CHECKS = {
    "connections/redis/": BROKER + ["C03"],
    "connections/rabbitmq/": BROKER + ["C09", "C03"],
    "connections/in_memory/": BROKER + ["C10", "C03"],
    "connections/abc.py": ["C17", "C13", "C02", "C01"],
    "_runner.py": ["C10", "C17", "C13", "C02", "C09", "C03"],
    "_processor.py": ["C10", "C17", "C16", "C13", "C08", "C18", "C02", "C04", "C03"],
    "worker.py": ["C10", "C17", "C20", "C11", "C03"],
    "message.py": ["C16", "C13", "C02", "C04"],
    "job.py": ["C19", "C07", "C05", "C12", "C13", "C06"],
    "router.py": ["C08", "C11"],
    "converter.py": ["C08", "C18", "C07"],
    "queue.py": ["C16", "C07"],
    "health_check_server.py": ["C20"],
    "data/": ["C19", "C05", "C12", "C07", "C13", "C06", "C04"],
    "_utils/": ["C07", "C13", "C08", "C18"],
    "middlewares/": ["C17", "C13", "C02"],
    "dependencies/": ["C16", "C13", "C08", "C18", "C02", "C04"],
    "retry_policy.py": ["C19", "C04"],
    "serializer.py": ["C07", "C08"],
    "_asyncify.py": ["C08", "C17"],
}


def checks_for(rel):
    for k, v in FILE_CHECKS.items():
        if rel.startswith(k):
            return v
    return CHECK_ORDER


def _skip_line(line: str) -> bool:
    return "pragma: no cover" in line or "logger." in line or line.strip().startswith(("raise ", "warn(", '"', "'"))


def mutants_of(rel):
    path = os.path.join(REPO, "repid", rel)
    src = open(path).read()
    lines = src.splitlines()
    tree = ast.parse(src)
    out = []

    def seg(node):
        return ast.get_source_segment(src, node)

    def add(node, new_text, op):
        if node.lineno != node.end_lineno and op != "del-call":
            # multi-line expressions are replaced as a whole as well
            pass
        if any(_skip_line(lines[i]) for i in range(node.lineno - 1, node.end_lineno)):
            return
        old = seg(node)
        if old is None or old == new_text:
            return
        out.append(dict(file=rel, line=node.lineno, col=node.col_offset, end_line=node.end_lineno,
                        end_col=node.end_col_offset, op=op, old=old, new=new_text))

    # skip annotations, decorators, defaults of signatures and TYPE_CHECKING blocks
    skip_ids = set()
    for node in ast.walk(tree):
        if isinstance(node, (ast.FunctionDef, ast.AsyncFunctionDef)):
            for a in ast.walk(node.args):
                skip_ids.add(id(a))
            for d in node.decorator_list:
                for a in ast.walk(d):
                    skip_ids.add(id(a))
            if node.returns is not None:
                for a in ast.walk(node.returns):
                    skip_ids.add(id(a))
        if isinstance(node, ast.AnnAssign):
            for a in ast.walk(node.annotation):
                skip_ids.add(id(a))
        if isinstance(node, ast.If) and "TYPE_CHECKING" in (seg(node.test) or ""):
            for a in ast.walk(node):
                skip_ids.add(id(a))
    in_function = set()
    for node in ast.walk(tree):
        if isinstance(node, (ast.FunctionDef, ast.AsyncFunctionDef)):
            for a in ast.walk(node):
                in_function.add(id(a))

    for node in ast.walk(tree):
        if id(node) in skip_ids or id(node) not in in_function:
            continue
        if isinstance(node, ast.Compare) and len(node.ops) == 1 and type(node.ops[0]) in CMP:
            new = ast.Compare(left=node.left, ops=[CMP[type(node.ops[0])]()], comparators=node.comparators)
            add(node, ast.unparse(new), "cmp")
        elif isinstance(node, ast.BoolOp):
            new = ast.BoolOp(op=ast.Or() if isinstance(node.op, ast.And) else ast.And(), values=node.values)
            add(node, ast.unparse(new), "and-or")
        elif isinstance(node, (ast.If, ast.While, ast.IfExp)):
            t = node.test
            if isinstance(t, ast.Constant):
                continue
            if isinstance(t, ast.UnaryOp) and isinstance(t.op, ast.Not):
                add(t, ast.unparse(t.operand), "negate")
            else:
                add(t, "not (" + seg(t) + ")", "negate")
        elif isinstance(node, ast.Constant) and node.value is True:
            add(node, "False", "bool")
        elif isinstance(node, ast.Constant) and node.value is False:
            add(node, "True", "bool")
        elif isinstance(node, ast.Constant) and type(node.value) is int and 0 <= node.value <= 100:
            add(node, str(node.value + 1), "int+1")
        elif isinstance(node, ast.BinOp) and isinstance(node.op, (ast.Add, ast.Sub)) and not isinstance(node.left, ast.Constant | ast.JoinedStr):
            if isinstance(node.left, ast.Constant) and isinstance(node.left.value, str):
                continue
            new = ast.BinOp(left=node.left, op=ast.Sub() if isinstance(node.op, ast.Add) else ast.Add(), right=node.right)
            add(node, ast.unparse(new), "arith")
        elif isinstance(node, ast.Expr) and isinstance(node.value, (ast.Await, ast.Call)):
            call = node.value.value if isinstance(node.value, ast.Await) else node.value
            if isinstance(call, ast.Call):
                name = seg(call.func) or ""
                if name.startswith(("logger.", "warn", "super().__init__")):
                    continue
                add(node, "pass", "del-call")
        elif isinstance(node, ast.Await) and isinstance(node.value, ast.Call) and (seg(node.value.func) or "") == "asyncio.shield":
            add(node, "await " + seg(node.value.args[0]), "unshield")
    return out


def apply(tree_dir, m):
    path = os.path.join(tree_dir, "repid", m["file"])
    lines = open(os.path.join(REPO, "repid", m["file"])).read().split("\n")
    l0, l1 = m["line"] - 1, m["end_line"] - 1
    # col offsets are utf-8 byte offsets
    b0 = lines[l0].encode()
    b1 = lines[l1].encode()
    head = b0[: m["col"]].decode()
    tail = b1[m["end_col"]:].decode()
    cur = "\n".join(lines[l0:l1 + 1])
    cur = cur.encode()[m["col"]: len(cur.encode()) - (len(b1) - m["end_col"])].decode()
    if cur != m["old"]:
        raise LookupError(f"mutant #{m['id']} is stale: the source at {m['file']}:{m['line']} has changed")
    new_lines = lines[:l0] + [head + m["new"] + tail] + lines[l1 + 1:]
    with open(path, "w") as f:
        f.write("\n".join(new_lines))
    return path


def restore(tree_dir, m):
    shutil.copyfile(os.path.join(REPO, "repid", m["file"]), os.path.join(tree_dir, "repid", m["file"]))


def sh(cmd, timeout=None, env=None):
    try:
        return subprocess.run(cmd, shell=True, capture_output=True, text=True, timeout=timeout, env=env)
    except subprocess.TimeoutExpired as e:
        class R:
            returncode = 124
            stdout = (e.stdout or b"").decode() if isinstance(e.stdout, bytes) else (e.stdout or "")
            stderr = "timeout"
        return R()


def make_tree(name):
    d = os.path.join(MUT, name)
    sh(f"rm -rf {d} && mkdir -p {d} && rsync -a --exclude .git --exclude __pycache__ --exclude .pytest_cache "
       f"--exclude docs --exclude benchmarks {REPO}/ {d}/")
    return d


def load():
    return json.load(open(os.path.join(MUT, "mutants.json")))


def save(ms):
    tmp = os.path.join(MUT, "mutants.json.tmp")
    json.dump(ms, open(tmp, "w"), indent=0)
    os.replace(tmp, os.path.join(MUT, "mutants.json"))


def cmd_gen(args):
    os.makedirs(MUT, exist_ok=True)
    ms = []
    for rel in FILES:
        ms.extend(mutants_of(rel))
    for i, m in enumerate(ms):
        m["id"] = i
    head = sh(f"git -C {REPO} rev-parse --short HEAD").stdout.strip()
    for m in ms:
        m["head"] = head
    save(ms)
    from collections import Counter
    print(len(ms), "mutants", Counter(m["op"] for m in ms))
    print(Counter(m["file"] for m in ms))


def cmd_tests(args):
    ms = load()
    todo = [m for m in ms if "tests" not in m]
    trees = [make_tree(f"t{i}") for i in range(args.j)]
    import queue
    free = queue.Queue()
    for t in trees:
        free.put(t)
    done = [0]

    def one(m):
        t = free.get()
        try:
            p = apply(t, m)
            c = sh(f"/venv/bin/python -m py_compile {p}")
            if c.returncode != 0:
                m["tests"] = "syntax"
            else:
                env = dict(os.environ, PYTHONPATH=t, PYTHONDONTWRITEBYTECODE="1")
                r = sh(f"cd {t} && unshare -n bash -c 'ip link set lo up 2>/dev/null; timeout 400 /venv/bin/python -m pytest -q -x "
                       f"-p no:cacheprovider --timeout=60 --deselect tests/test_hypothesis.py::test_job_creation "
                       f"--ignore tests/integration 2>&1 | tail -1'", timeout=500, env=env)
                last = (r.stdout or "").strip().splitlines()[-1:] or [""]
                m["tests"] = "pass" if re.search(r"\b194 passed\b", last[0]) and not re.search(r"\b\d+ (failed|error)", last[0]) else "fail"
                m["tests_tail"] = last[0][:120]
            restore(t, m)
        finally:
            free.put(t)
        done[0] += 1
        if done[0] % 20 == 0:
            save(ms)
            print(done[0], "/", len(todo), flush=True)

    with ThreadPoolExecutor(args.j) as ex:
        list(ex.map(one, todo))
    save(ms)
    from collections import Counter
    print(Counter(m["tests"] for m in ms))


def cmd_checks(args):
    ms = load()
    todo = [m for m in ms if m.get("tests") == "pass" and "checks" not in m]
    if args.only:
        todo = [m for m in todo if m["id"] in set(args.only)]
    else:
        surv = [m for m in ms if m.get("tests") == "pass"]
        pick = {m["id"] for i, m in enumerate(surv) if i % args.stride == args.offset}
        todo = [m for m in todo if m["id"] in pick]
    t = make_tree("c0")
    out = os.path.join(MUT, "out")
    for n, m in enumerate(todo):
        if m["op"] == "del-call" and m["old"].strip() == "await asyncio.sleep(0)":
            m["checks"] = {}
            m["detected_by"] = None
            m["verdict"] = "equivalent: a bare yield to the event loop"
            continue
        try:
            apply(t, m)
        except LookupError as e:
            print(e, flush=True)
            m["stale"] = True
            continue
        sh(f"find {t} -name __pycache__ -prune -exec rm -rf {{}} +")
        env = dict(os.environ, REPID_TREE=t, MC_OUT=out, VERIF_SEED="0")
        res = {}
        detected = None
        for c in (CHECK_ORDER if args.all_checks else checks_for(m["file"])):
            r = sh(f"cd /verif && taskset -c {args.cpus} timeout 420 ./check {c} quick 2>&1 | tail -40", timeout=480, env=env)
            o = r.stdout or ""
            last = o.strip().splitlines()[-1] if o.strip() else ""
            if "VIOLATION property=" in o:
                sigs = re.findall(r"signature=([^\]]+)\]", o)
                res[c] = dict(result="violation", signatures=sorted(set(sigs))[:6])
                detected = c
                break
            if "HARNESS-ERROR" in o or "Traceback" in o or not last.startswith(c):
                res[c] = dict(result="error", tail=o[-600:])
                if not args.keep_going:
                    detected = c + "(error)"
                    break
            else:
                res[c] = dict(result="clean")
        m["checks"] = res
        m["detected_by"] = detected
        restore(t, m)
        save(ms)
        print(f"[{n + 1}/{len(todo)}] #{m['id']} {m['file']}:{m['line']} {m['op']} `{m['old'][:50]}` -> `{m['new'][:50]}`: "
              f"{detected or 'NOT DETECTED'}", flush=True)


def cmd_report(args):
    ms = load()
    from collections import Counter
    print("mutants", len(ms), Counter(m.get("tests") for m in ms))
    surv = [m for m in ms if m.get("tests") == "pass"]
    checked = [m for m in surv if "checks" in m]
    print("survived the test-suite:", len(surv), "checked:", len(checked))
    print("detected by:", Counter((m["detected_by"] or "none") for m in checked))
    for m in checked:
        if not m["detected_by"]:
            print(f"  #{m['id']} {m['file']}:{m['line']} {m['op']}: `{m['old'][:70]}` -> `{m['new'][:70]}`")
    os.makedirs("/verif/mutation", exist_ok=True)
    vp = "/verif/mutation/verdicts.json"
    verdicts = json.load(open(vp)) if os.path.exists(vp) else {}
    for m in ms:
        if str(m["id"]) in verdicts:
            m["verdict"] = verdicts[str(m["id"])]
    und = [m for m in checked if not m["detected_by"]]
    print("undetected without a verdict:", [m["id"] for m in und if not m.get("verdict")])
    slim = [dict(id=m["id"], file=m["file"], line=m["line"], op=m["op"], old=m["old"], new=m["new"], head=m["head"],
                 tests=m.get("tests"), detected_by=m.get("detected_by"),
                 signatures=(m.get("checks", {}).get(m.get("detected_by") or "", {}) or {}).get("signatures"),
                 verdict=m.get("verdict"))
            for m in ms]
    json.dump(slim, open("/verif/mutation/summary.json", "w"), indent=0)


if __name__ == "__main__":
    ap = argparse.ArgumentParser()
    sub = ap.add_subparsers(dest="cmd", required=True)
    sub.add_parser("gen")
    p = sub.add_parser("tests")
    p.add_argument("-j", type=int, default=24)
    p = sub.add_parser("checks")
    p.add_argument("--cpus", default="0-15")
    p.add_argument("--only", type=int, nargs="*")
    p.add_argument("--keep-going", action="store_true")
    p.add_argument("--all-checks", action="store_true")
    p.add_argument("--stride", type=int, default=1)
    p.add_argument("--offset", type=int, default=0)
    sub.add_parser("report")
    a = ap.parse_args()
    globals()["cmd_" + a.cmd](a)
