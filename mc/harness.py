"""One execution = one `Exec`: fresh loop, fresh world, optional injections, teardown."""
from __future__ import annotations

import asyncio
import gc
import signal

from repid import Worker
from repid.converter import BasicConverter

from . import world as W
from .explore import Chooser
from .vloop import NS, Deadlock, Horizon


class Exec:
    def __init__(self, kind: str, *, deviations=None, buckets=None, clients: int = 1,
                 bucket_kind=None):
        gc.disable()
        self.chooser = Chooser(deviations)
        self.loop = W.make_loop()
        self.loop.__enter__()
        self.world = W.World(kind, self.loop, buckets=buckets, chooser=self.chooser,
                             clients=clients, bucket_kind=bucket_kind)
        self.log = self.world.log
        self.mark_iter = 0
        self._inj: dict[int, list] = {}
        self.loop.select_hooks.append(self._hook)
        self.stalled = None
        self.slipped = False

    # -- injections (select-phase external events) --------------------------------------
    def mark(self) -> None:
        """Injection indices count loop iterations from here."""
        self.mark_iter = self.loop.iterations

    def at_iteration(self, k: int, fn) -> None:
        self._inj.setdefault(k, []).append(fn)

    def _hook(self, loop) -> None:
        if self._inj:
            fns = self._inj.pop(loop.iterations - self.mark_iter - 1, None)
            if fns:
                for fn in fns:
                    fn()

    def slip_at(self, k: int, j: int = 1, limit_s: float = 0.05) -> None:
        """Time slip: at iteration k the work done so far is taken to have lasted until the j-th
        nearest timer deadline (at most `limit_s` ahead), so that timer fires in the middle of
        the current chain of callbacks - as it can on a machine where computing takes time."""
        def slip():
            loop = self.loop
            ds = sorted({t._ns for t in loop._scheduled if not t._cancelled and t._ns > loop._ns})
            if len(ds) >= j and ds[j - 1] - loop._ns <= limit_s * NS:
                loop._ns = ds[j - 1]
                self.slipped = True
        self.at_iteration(k, slip)

    @property
    def rel_iter(self) -> int:
        return self.loop.iterations - self.mark_iter

    # -- driving ------------------------------------------------------------------------------
    def run(self, coro, *, max_vt=None, max_iters=400_000):
        """Run to completion; returns (status, value) with status in ok/exc/stall/deadlock."""
        fut = asyncio.ensure_future(coro, loop=self.loop)
        try:
            self.loop.run_until(fut, max_vt=None if max_vt is None else self.loop.time() + max_vt,
                                max_iters=max_iters)
        except Horizon as e:
            self.stalled = str(e)
            return ("stall", fut)
        except Deadlock:
            self.stalled = "deadlock"
            return ("deadlock", fut)
        if fut.cancelled():
            return ("cancelled", None)
        if fut.exception() is not None:
            return ("exc", fut.exception())
        return ("ok", fut.result())

    def settle(self, max_vt: float) -> bool:
        gc.collect()
        try:
            return self.loop.settle(max_vt=max_vt)
        except Horizon:
            return False

    def pending_tasks(self):
        return [t for t in asyncio.all_tasks(self.loop) if not t.done()]

    def close(self) -> None:
        try:
            self.chooser.finish()
        finally:
            try:
                W.teardown(self.loop)
            finally:
                self.loop.__exit__(None, None, None)
                self.loop.close()
                gc.enable()

    # -- conveniences -------------------------------------------------------------------------
    def worker(self, **kw) -> Worker:
        kw.setdefault("_connection", self.world.conn)
        return Worker(**kw)

    def now_ns(self) -> int:
        return self.loop._ns


def actor_log(world, mid, event, extra=None):
    world.log.append([world.loop._ns, "actor", event, mid, extra])


def actor_runs(log, mid):
    """[(start_ns, end_ns|None, outcome)] for message id from the actor spy."""
    runs = []
    for rec in log:
        if rec[1] != "actor" or rec[3] != mid:
            continue
        if rec[2] == "start":
            runs.append([rec[0], None, None])
        elif runs and runs[-1][1] is None:
            runs[-1][1] = rec[0]
            runs[-1][2] = rec[2]
    return runs


SIGTERM = signal.SIGTERM
BASIC = BasicConverter
