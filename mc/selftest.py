"""Self-tests of the trusted base: the virtual loop against stock asyncio, the seams, and
(when present) the fake servers' command semantics."""
from __future__ import annotations

import asyncio
import sys

from .vloop import VLoop, install_seams

U = 0.02


def _programs():
    async def order(log):
        loop = asyncio.get_running_loop()
        for i in range(4):
            loop.call_soon(log.append, f"s{i}")
        for i, d in enumerate([2 * U, U, 2.5 * U, 1.5 * U]):
            loop.call_later(d, log.append, f"t{i}")
        await asyncio.sleep(3 * U)

    async def zero_chain(log):
        async def a(n):
            for i in range(3):
                await asyncio.sleep(0)
                log.append(f"a{n}.{i}")
        await asyncio.gather(a(0), a(1), a(2))

    async def runner_like(log):
        cancel_event = asyncio.Event()
        cancel_task = asyncio.create_task(cancel_event.wait())

        async def process(n, d):
            try:
                await asyncio.sleep(d)
                log.append(f"proc{n} done")
            except asyncio.CancelledError:
                log.append(f"proc{n} cancelled")
                raise

        async def with_event(n, d):
            pt = asyncio.create_task(process(n, d))
            await asyncio.wait({cancel_task, pt}, return_when=asyncio.FIRST_COMPLETED)
            if cancel_event.is_set():
                pt.cancel()
                await asyncio.sleep(0)
                log.append(f"reject{n}")
                return
            await pt

        ts = [asyncio.create_task(with_event(i, d)) for i, d in enumerate([U, 3 * U, 6.5 * U])]
        for t in ts:
            t.add_done_callback(lambda t: log.append("cb"))
        _, pend = await asyncio.wait(ts, timeout=4.2 * U)
        log.append(("pending", len(pend)))
        cancel_event.set()
        await asyncio.sleep(U)
        log.append("end")

    async def waitfor(log):
        lock = asyncio.Lock()

        async def poller():
            n = 0
            while lock.locked():
                await asyncio.sleep(U * 0.7)
                n += 1
            log.append(("polled", n))

        await lock.acquire()
        t = asyncio.create_task(poller())

        async def fin(d):
            await asyncio.sleep(d)
            log.append(f"fin{d / U:.1f}")

        try:
            await asyncio.wait_for(asyncio.gather(fin(U), fin(5 * U)), timeout=3.1 * U)
        except asyncio.TimeoutError:
            log.append("gather timeout")
        lock.release()
        await t
        try:
            async with asyncio.timeout(U):
                await asyncio.sleep(2.3 * U)
        except TimeoutError:
            log.append("ctx timeout")

    async def exc_cb(log):
        loop = asyncio.get_running_loop()

        async def bad():
            await asyncio.sleep(0)
            raise ValueError("x")

        t = asyncio.create_task(bad())
        t.add_done_callback(lambda t: (log.append("cb1"), loop.call_soon(log.append, "from cb")))
        t.add_done_callback(lambda t: log.append("cb2"))
        r = await asyncio.gather(t, asyncio.sleep(0, "v"), return_exceptions=True)
        log.append([type(x).__name__ for x in r])
        await asyncio.sleep(0)
        log.append("z")

    async def queue_sem(log):
        q = asyncio.Queue(maxsize=1)

        async def prod():
            for i in range(3):
                await q.put(i)
                log.append(f"put{i}")

        p = asyncio.create_task(prod())
        await asyncio.sleep(0)
        await asyncio.sleep(0)
        log.append(("qsize", q.qsize()))
        log.append(await q.get())
        await asyncio.sleep(0)
        log.append(await q.get())
        g = asyncio.create_task(q.get())
        await asyncio.sleep(0)
        log.append(("g", g.done()))
        g2 = asyncio.create_task(q.get())
        await asyncio.sleep(0)
        g2.cancel()
        await asyncio.sleep(0)
        log.append(("g2", g2.cancelled()))
        await p
        sem = asyncio.Semaphore(1)

        async def user(n):
            async with sem:
                log.append(f"in{n}")
                await asyncio.sleep(0)
            log.append(f"out{n}")

        await asyncio.gather(user(0), user(1), user(2))

    async def cancel_child(log):
        async def child():
            try:
                await asyncio.sleep(10 * U)
            except asyncio.CancelledError:
                log.append("child cancelled")
                await asyncio.sleep(0)
                log.append("child cleanup")
                raise

        async def parent():
            c = asyncio.create_task(child())
            try:
                await c
            except asyncio.CancelledError:
                log.append("parent cancelled")
                raise

        p = asyncio.create_task(parent())
        await asyncio.sleep(U)
        p.cancel()
        r = await asyncio.gather(p, return_exceptions=True)
        log.append(type(r[0]).__name__)

    async def agen(log):
        async def gen():
            try:
                for i in range(3):
                    await asyncio.sleep(0)
                    yield i
            finally:
                log.append("gen closed")

        g = gen()
        async for i in g:
            log.append(i)
            if i == 1:
                break
        await g.aclose()
        log.append("after")

    async def executor(log):
        loop = asyncio.get_running_loop()
        r = await loop.run_in_executor(None, lambda: 41 + 1)
        log.append(r)
        try:
            await loop.run_in_executor(None, lambda: 1 / 0)
        except ZeroDivisionError:
            log.append("zde")

    async def sigprog(log):
        import os, signal
        loop = asyncio.get_running_loop()

        def handler():
            log.append("sig")
            loop.remove_signal_handler(signal.SIGUSR1)

        loop.add_signal_handler(signal.SIGUSR1, handler)

        async def chain(n):
            for i in range(4):
                await asyncio.sleep(0)
                log.append(f"c{n}.{i}")

        t = asyncio.gather(chain(0), chain(1))
        await asyncio.sleep(0)
        loop.call_later(U, log.append, "timer")
        if hasattr(loop, "raise_signal"):
            loop.raise_signal(signal.SIGUSR1)
        else:
            os.kill(os.getpid(), signal.SIGUSR1)
        loop.call_soon(log.append, "soon")
        await t
        await asyncio.sleep(2 * U)

    return [sigprog, order, zero_chain, runner_like, waitfor, exc_cb, queue_sem, cancel_child, agen, executor]


def loop_conformance(verbose=False) -> int:
    bad = 0
    for p in _programs():
        l1: list = []
        asyncio.run(p(l1))
        l2: list = []
        loop = VLoop()
        with loop:
            loop.run_until(p(l2))
            loop.shutdown()
        loop.close()
        same = l1 == l2
        if verbose or not same:
            print(p.__name__, "SAME" if same else f"DIFF\n real={l1}\n virt={l2}")
        bad += not same
    return bad


def virtual_only() -> int:
    """Properties of the virtual loop that have no real-time counterpart."""
    bad = 0
    log: list = []

    async def ties():
        loop = asyncio.get_running_loop()
        for i in range(4):
            loop.call_later(0.5, log.append, i)  # equal deadlines: creation order
        await asyncio.sleep(1.0)
        x = sum(0.001 for _ in range(1000))
        t0 = loop.time()
        for _ in range(1000):
            await asyncio.sleep(0.001)
        log.append(round((loop.time() - t0) * 1e9))

    loop = VLoop()
    with loop:
        loop.run_until(ties())
        loop.shutdown()
    loop.close()
    if log != [0, 1, 2, 3, 1_000_000_000]:
        print("virtual loop tie/exact-time self-test failed:", log)
        bad += 1
    # signal delivery order: handler runs in the iteration after the self-pipe reader
    log2: list = []

    async def sig():
        loop = asyncio.get_running_loop()
        loop.add_signal_handler(15, log2.append, "sig")
        loop.call_soon(log2.append, "a")
        loop.raise_signal(15)
        await asyncio.sleep(0)
        log2.append("b")
        await asyncio.sleep(0)
        log2.append("c")

    loop = VLoop()
    with loop:
        loop.run_until(sig())
        loop.shutdown()
    loop.close()
    if log2 != ["a", "b", "c", "sig"]:
        print("signal order self-test failed:", log2)
        bad += 1
    return bad


_done = False


def run_quick() -> None:
    """Cheap part, run in every check's preamble."""
    global _done
    if _done:
        return
    install_seams()
    if virtual_only():
        sys.stderr.write("HARNESS-ERROR: virtual loop self-test failed\n")
        raise SystemExit(2)
    from .env import selftests

    if selftests.run():
        sys.stderr.write("HARNESS-ERROR: environment model self-test failed\n")
        raise SystemExit(2)
    _done = True


def main() -> int:
    verbose = "-v" in sys.argv
    bad = loop_conformance(verbose)
    install_seams()
    bad += virtual_only()
    from .env import selftests

    bad += selftests.run(verbose)
    print("selftest:", "OK" if not bad else f"{bad} FAILED")
    return 1 if bad else 0


if __name__ == "__main__":
    sys.exit(main())
