"""C10 - messages_limit is an upper bound and a stop condition.

Matrix M x backlog x actor durations x tasks_limit x queues x broker, each cell one real
Worker.run() that has to stop by itself; plus the testing plugin's run-on-enqueue mode.
"""
import asyncio
import itertools

from repid import Job, MessageDependency, Worker
from repid.converter import BasicConverter

from ..explore import Acc, digest
from ..harness import Exec, actor_log
from ..scenario import fixed_policy, run_worker
from ..vloop import NS
from ..world import params_view

ID = "C10"
LEVEL = "model_checking"
RULE = ("full product of messages_limit M x backlog size x duration profile x tasks_limit x number of queues x "
        "broker, and run-on-enqueue cases of the testing plugin; distinct = distinct (cell, executions started, "
        "leftover messages)")
ASSUMPTIONS = ["Redis / RabbitMQ replaced by in-process models", "durations scaled to 0 / 5 ms / 50 ms"]

DUR = {"zero": 0.0, "short": 0.005, "long": 0.05}
PROFILES = ["zero", "short", "long", "mixed"]


def cells(tier):
    out = []
    kinds = ["mem", "redis", "amqp"]
    for kind in kinds:
        for M in (1, 2, 3):
            for extra in (1, 2, 3):
                for prof in PROFILES:
                    for tl in (1, 2, 1000):
                        for nq in (1, 2):
                            if tier == "quick" and kind != "mem" and (extra == 2 or prof == "short"):
                                continue
                            out.append(dict(kind=kind, M=M, backlog=M + extra, prof=prof, tl=tl, nq=nq, plugin=None))
    # one failing disposition call (a broker fault outside the actor) must not change the count
    for kind in kinds:
        for M in (2, 3):
            for tl in (1, 2):
                for fault in (["ack", 0], ["ack", 1]):
                    out.append(dict(kind=kind, M=M, backlog=M + 2, prof="short", tl=tl, nq=1, plugin=None, fault=fault))
    for mode in ("immediate", "failing-retry", "deferred", "two-jobs"):
        out.append(dict(kind="mem", M=1, backlog=1, prof="short", tl=1000, nq=1, plugin=mode))
    return out


def durations(cell):
    n = cell["backlog"]
    if cell["prof"] == "mixed":
        cyc = [DUR["long"], DUR["zero"], DUR["short"]]
        return [cyc[i % 3] for i in range(n)]
    return [DUR[cell["prof"]]] * n


def execute(cell, late_at=None, probe=None):
    if cell["plugin"]:
        return execute_plugin(cell)
    durs = durations(cell)
    queues = ["q", "q2"][: cell["nq"]]
    late_p0 = {}

    def build(x, worker):
        w = x.world

        async def job(i: int, m: MessageDependency):
            mid = m.key.id_
            actor_log(w, mid, "start", dict(tried=m.parameters.retries.already_tried))
            try:
                await asyncio.sleep(durs[i])
            except asyncio.CancelledError:
                actor_log(w, mid, "cancelled")
                raise
            actor_log(w, mid, "ok")

        for q in queues:
            worker.actor(job, name=f"job_{q}", queue=q, converter=BasicConverter)

    msgs = []
    for i in range(cell["backlog"]):
        q = queues[i % len(queues)]
        msgs.append(dict(id=f"m{i}", topic=f"job_{q}", queue=q, payload='{"i":%d}' % i,
                         params=lambda w: w.params(retries=2, timeout=100.0)))
    inject = during = None
    if cell.get("late"):
        # the worker starts one message short of its limit; the last two arrive later
        late, msgs = msgs[-2:], msgs[:-2]

        async def put(x):
            w = x.world
            for m_ in late:
                p_ = m_["params"](w)
                late_p0[m_["id"]] = params_view(p_)
                await w.broker.enqueue(w.key(m_["id"], m_["topic"], m_["queue"]), m_["payload"], p_)

        if late_at is None:
            async def during(x):
                await asyncio.sleep(0.03)
                probe.append(x.rel_iter)
                await put(x)
        else:
            def inject(x):
                fired = []

                def fire():
                    if not fired:
                        fired.append(1)
                        asyncio.ensure_future(put(x), loop=x.loop)

                x.at_iteration(late_at, fire)
                # an idle push-based worker goes quiescent: iterations that never come fall back to 30 ms
                x.loop.call_later(0.03, fire)
    res = run_worker(cell["kind"], build=build, messages=msgs, queues=queues, stop_mode="self", inject=inject, during=during,
                     worker_kw=dict(messages_limit=cell["M"], tasks_limit=cell["tl"], graceful_shutdown_time=5.0),
                     max_iters=200_000, settle=1.0, fail_calls=[cell["fault"]] if cell.get("fault") else None)
    viol = []
    M = cell["M"]
    if res.status != "ok":
        viol.append(("no-return", f"Worker.run() with messages_limit={M} ended with {res.status}: {res.value!r}"))
    starts = [r for r in res.log if r[1] == "actor" and r[2] == "start"]
    oks = [r for r in res.log if r[1] == "actor" and r[2] == "ok"]
    started_ids = [r[3] for r in starts]
    if len(starts) > M:
        viol.append(("too-many-started", f"{len(starts)} actor executions started with messages_limit={M}: {started_ids}"))
    if res.status == "ok" and len(oks) < M:
        viol.append(("returned-early", f"run() returned after {len(oks)} finished executions, messages_limit={M}"))
    if res.status == "ok":
        # it must return once those M have finished, not (much) later
        if oks:
            mth = sorted(r[0] for r in oks)[min(M, len(oks)) - 1]
            if (res.ret_ns - mth) / NS > 0.5 + 5 + 1:
                viol.append(("late-return", f"run() returned {(res.ret_ns - mth) / NS:.2f}s after execution {M} finished"))
    done = {r[3] for r in oks}
    res.p0.update(late_p0)
    if cell.get("fault"):
        # the message whose ack failed stays in flight / is not removed: only the counts are judged
        summary = dict(started=started_ids, finished=sorted(done))
        return res, [v for v in viol if v[0] == "too-many-started"], summary
    for i in range(cell["backlog"]):
        mid = f"m{i}"
        ents = res.obs.get(mid, [])
        if mid in done:
            if ents:
                viol.append(("done-still-present", f"{mid} finished but is still in {[e['place'] for e in ents]}"))
            continue
        if len(ents) != 1 or ents[0]["place"] != "waiting":
            viol.append(("leftover-place", f"{mid} was beyond the limit but is in {[e['place'] for e in ents]}, expected waiting"))
        elif ents[0]["params"] != res.p0[mid]:
            viol.append(("leftover-changed", f"{mid} was beyond the limit; parameters changed from {res.p0[mid]} to {ents[0]['params']}"))
    summary = dict(started=started_ids, finished=sorted(done),
                   left={k: [e["place"] for e in v] for k, v in res.obs.items() if not k.startswith("__")})
    return res, viol, summary


def execute_plugin(cell):
    """RunWorkerOnEnqueueModifier: enqueue() returns after exactly that job was processed once."""
    from repid.testing.modifiers import RunWorkerOnEnqueueModifier

    mode = cell["plugin"]
    x = Exec("mem")
    w = x.world
    viol = []
    summary = {}

    class R:
        handles = 0
        exc_log = []

    try:
        runs = []

        def ctor():
            worker = Worker(_connection=w.conn, graceful_shutdown_time=1.0, messages_limit=1, handle_signals=[])

            async def job(m: MessageDependency):
                runs.append((m.key.id_, m.parameters.retries.already_tried))
                await asyncio.sleep(0.005)
                if mode == "failing-retry" and m.parameters.retries.already_tried == 0:
                    raise ValueError("first attempt fails")

            worker.actor(job, name="job", queue="q", converter=BasicConverter, retry_policy=fixed_policy(0.0))
            return worker

        async def main():
            await w.connect()
            await w.broker.queue_declare("q")
            RunWorkerOnEnqueueModifier(w.broker, ctor)
            from datetime import timedelta
            out = []
            if mode == "deferred":
                j = Job("job", queue="q", id_="a", deferred_by=timedelta(seconds=1), _connection=w.conn)
                t0 = x.loop.time()
                await j.enqueue()
                out.append(("a", len(runs), x.loop.time() - t0))
            elif mode == "two-jobs":
                for name in ("a", "b"):
                    await Job("job", queue="q", id_=name, _connection=w.conn).enqueue()
                    out.append((name, len(runs), 0))
            else:
                j = Job("job", queue="q", id_="a", retries=1, _connection=w.conn)
                await j.enqueue()
                out.append(("a", len(runs), 0))
            return out

        st, v = x.run(main(), max_iters=300_000)
        summary = dict(status=st, out=v if st == "ok" else repr(v), runs=list(runs))
        if st != "ok":
            viol.append(("plugin-no-return", f"enqueue() in run-on-enqueue mode ended with {st}: {v!r}"))
        else:
            for k, (name, nruns, _) in enumerate(v):
                if nruns != k + 1:
                    viol.append(("plugin-runs", f"after enqueue({name}) returned, {nruns} executions had happened, expected {k + 1}"))
            ids = [r[0] for r in runs]
            if mode == "two-jobs" and ids != ["a", "b"]:
                viol.append(("plugin-runs", f"executions {runs}, expected a then b"))
        R.handles = x.loop.handles
    finally:
        x.close()
    return R, viol, summary


def jobs(tier):
    cs = cells(tier)
    n = 10
    out = [dict(cells=cs[i:i + n]) for i in range(0, len(cs), n)]
    # sweep: the worker is one message short of its limit; two more arrive at every iteration
    for kind in ("mem", "redis", "amqp"):
        for M in (1, 2, 3) if tier == "thorough" else (1, 2):
            for tl in (1, 2):
                for prof in ("short", "zero") if tier == "thorough" else ("short",):
                    cell = dict(kind=kind, M=M, backlog=M + 1, prof=prof, tl=tl, nq=1, plugin=None, late=True)
                    probe = []
                    execute(cell, None, probe)
                    ks = list(range(0, probe[0] + 1))
                    for lo in range(0, len(ks), 40):
                        out.append(dict(sweep=cell, ks=ks[lo:lo + 40]))
    return out


def run_job(job):
    acc = Acc()
    todo = [(c, None) for c in job.get("cells", [])] + [(job["sweep"], k) for k in job.get("ks", [])]
    for cell, k in todo:
        res, viol, summary = execute(cell, k, [])
        acc.executions += 1
        acc.handles += res.handles
        acc.choice_points += 1
        acc.outcomes.add(digest([cell, k is not None, summary]))
        acc.phases["plugin" if cell["plugin"] else "late-arrival" if cell.get("late") else cell["prof"]] += 1
        for sig, what in viol:
            acc.violations.append(dict(
                signature=f"{cell['kind']} {sig}",
                what=what + f" [cell {cell}, late messages at iteration {k}]",
                job=dict(cells=[cell]) if k is None else dict(sweep=cell, ks=[k]),
                detail=summary,
            ))
        if len(acc.samples) < 2:
            acc.samples.append(dict(cell=cell, observed=summary))
    return acc.to_dict()
