#!/bin/bash
# Which lines of repid are never executed by the checks?  Development aid (not a registered command):
#   tools/repo_coverage.sh [tier] [checks...]   -> report in $OUT/report.txt (default /root/cov)
# (lines executed only at import time in the parent process count as missed; see mc/linecov.py)
set -u
tier="${1:-quick}"; shift || true
checks="${*:-C01 C02 C03 C04 C05 C06 C07 C08 C09 C10 C11 C12 C13 C14 C15 C16 C17 C18 C19 C20}"
OUT="${OUT:-/root/cov}"
rm -rf "$OUT"; mkdir -p "$OUT/data"
cd /verif
cp -r evidence "$OUT/evidence.bak"
for c in $checks; do
  MC_COVER="$OUT/data" timeout 1800 ./check "$c" "$tier" | tail -1
done
rm -rf evidence; mv "$OUT/evidence.bak" evidence
PYTHONPATH=/verif /venv/bin/python -m mc.linecov "$OUT/data" > "$OUT/report.txt"
cat "$OUT/report.txt"
