"""Generates /verif/MANIFEST.json from the table below (python3 -m mc.manifest)."""
import json
import os

ROOT = os.path.dirname(os.path.dirname(os.path.abspath(__file__)))

# id: (level, technique, text, note, design_ref)
FAKES = ("Trusted base: VLoop reproduces asyncio scheduling (self-test against stock asyncio); Redis and RabbitMQ "
         "are in-process models of their documented semantics (table-driven self-tests), redis-py / aiormq internals "
         "are bypassed; clock, uuid and random are owned by the harness.")

CLAIMED = {
    "C01": ("model_checking", "explicit-state BFS over API histories on the real brokers + cancellation sweep",
            "Every broker-API history up to the depth bound (2-3 messages, 4 consumers incl. delayed/dead categories, "
            "4 enqueue timings, clock advances) is executed on the real broker code and compared with a reference "
            "model after every operation; every distinct (state, operation) pair is additionally cancelled at each "
            "of its loop iterations and must end in the pre- or post-state (a terminal call left in the pre-state must "
            "work when repeated), and re-run with every single server-timing deviation followed by a drain epilogue; four non-initial start states that leave consumer-private memory behind (a delivered "
            "message settled by nack / reject / requeue / ack) are roots of further searches 3 (4) steps deep.",
            FAKES + " Bounded: depth 5 (quick) / 6-7 (thorough); states merged on a canonical key.", "DESIGN.md 4 C01"),
    "C02": ("model_checking", "exhaustive scenario matrix, each cell one deterministic worker run with a broker-call spy",
            "Full product of 37 actor behaviours x retry budget x attempts x recurring x result storing x both "
            "converters x three brokers, plus all ordered behaviour pairs run concurrently with a bystander; per "
            "delivery exactly one terminal broker call of the predicted kind, actor invoked once, final place per model.",
            FAKES + " cron recurrences excluded (croniter not installed).", "DESIGN.md 4 C02"),
    "C03": ("model_checking", "stop-signal sweep over every loop iteration x one time slip, real worker on three brokers",
            "For every scenario (broker x graceful period x actor kind, including one that swallows the cancellation, x load) SIGTERM is delivered at the select phase "
            "of every loop iteration of the run, alone and combined with one time slip (a timer firing in the middle "
            "of the shutdown chain) within 16 iterations; after run() returned and the loop settled every message must "
            "rest in a state the lifecycle model allows, nothing in flight, run() back within grace + 6.5 s. One scenario "
            "per broker (more in the thorough tier) combines every stop instant with every single server-timing deviation; "
            "on Redis the worker's clients are also killed at every iteration and maintenance has to recover exactly the "
            "in-flight messages, only after their execution timeout.",
            FAKES + " Signals become visible at the select phase as on a real loop (validated against stock asyncio).",
            "DESIGN.md 4 C03"),
    "C04": ("model_checking", "exhaustive matrix of retry chains run to the end in virtual time",
            "Budget N in 0..3 x first succeeding attempt x failure kind x retry policy x recurrence x broker, plus "
            "retry()/force_retry() at the budget boundary: attempt counters 0,1,2.., never above N unforced, back-off "
            "never shorter than the policy's delay (1 ms tolerance), chain ends acked / dead / rescheduled with counter 0.",
            FAKES, "DESIGN.md 4 C04"),
    "C06": ("model_checking", "all duration sequences x outcomes x first-run settings, real Job + Worker over several iterations",
            "Every sequence of actor durations from {0,.3p,.7p,1.2p,2.6p} of length 3 (4 thorough) x outcome pattern x "
            "deferred_until setting x period: exactly one successor per iteration, counter 0, timestamp restarted, "
            "now < next <= now+p, next >= previous scheduled time + p, never started before its scheduled time; "
            "every pair of durations again with results stored, the result store working or down for the whole run, and with a job created a day before the first worker starts.",
            FAKES + " cron recurrences excluded (croniter not installed).", "DESIGN.md 4 C06"),
    "C10": ("model_checking", "exhaustive matrix M x backlog x durations x tasks_limit x queues x broker, plus testing plugin",
            "Each cell is a real Worker.run() that has to stop by itself: executions started <= M, run() returns after "
            "M finished, every message beyond M waiting with identical parameters; run-on-enqueue mode of the testing "
            "plugin returns after exactly that job ran once; a worker one message short of its limit with two more "
            "arriving at every loop iteration.",
            FAKES, "DESIGN.md 4 C10"),
    "C05": ("model_checking", "exhaustive grid of due offsets x clock phase x consumer polling phase x broker, enqueue sweep",
            "Due offsets from the past to 100 years x 4 positions inside the clock second x 5 consumer modes, all "
            "ordered delay pairs, and the enqueue instant swept over a polling period: a normal consumer never gets "
            "the message earlier than 1 ms before its due time, gets it within L afterwards, and before that only the "
            "delayed category shows it; the same for an explicit due time on a message that also carries a period "
            "(retry back-off of a recurring job).",
            FAKES + " L = 2.5 s (in-memory, Redis), 0.5 s (RabbitMQ). Far-future cases step the wall clock.", "DESIGN.md 4 C05"),
    "C12": ("model_checking", "exhaustive grid ttl x delivery instant around the expiry x message kind x broker",
            "A worker starts listening exactly at expiry -0.5 s, -1 ms, 0, +1 ms, +0.5 s for immediate, delayed, retried "
            "and rescheduled messages; a per-iteration monitor records when the message is dead-lettered: never "
            "executed after expiry, never dead-lettered at or before it, expired messages readable from the dead category; "
            "with the dead-lettering call failing once the message is still never executed; the grid is repeated with the "
            "process 9 h east and 5 h west of UTC; every backlog word of length 2-4 (5) over {expired, live, no ttl} found by "
            "a starting worker: no expired message runs, each is readable from the dead category, every live one runs once.",
            FAKES, "DESIGN.md 4 C12"),
    "C14": ("model_checking", "start/stop sweeps over every iteration + deviation-bounded search over server request order and stalls",
            "Two consumers and two workers on one queue (1-3 messages): the second participant starts, and the first "
            "worker is force-stopped, at every loop iteration; on the Redis / RabbitMQ models every order of concurrently "
            "pending requests and every single stalled request is explored up to 2 (quick) / 3 (thorough) deviations: no id "
            "handed to two holders without a return in between, successful jobs run exactly once, no overlapping holders.",
            FAKES + " In-memory two-consumer histories are additionally covered by C01's alphabet.", "DESIGN.md 4 C14"),
    "C15": ("model_checking", "exhaustive words over enqueue/consume/reject on the real brokers against a FIFO model",
            "All words up to length 6-7 from the empty queue and all words up to length 4-5 appended to backlogs of 1..13 "
            "messages in three topic patterns (straddling Redis' 10-name window), with one consumer and with a second "
            "consumer for the foreign topic, and with mixed priorities under each of the three priority orders Redis draws "
            "at random; every consume() must return a message the FIFO model allows (order within a priority).",
            FAKES + " Delayed-then-due messages are outside the order oracle.", "DESIGN.md 4 C15"),
    "C13": ("fault_enumeration", "scenario matrix x exhaustive enumeration of failing result-bucket calls (up to 2) with a fault-free twin",
            "Execution chains (single, retry, recurring, eager, eager with a raising user callback registered first) x values / exceptions x storing on/off x ttl x bucket "
            "broker; every result-bucket call is a choice point succeed/raise, all subsets of at most two faults are "
            "run: fault-free Job.result equals the last finished execution's outcome; with faults the broker calls and "
            "final places equal the fault-free twin and the bystander job completes; nothing written when disabled.",
            FAKES + " A failing bucket call raises before anything is written.", "DESIGN.md 4 C13"),
    "C16": ("model_checking", "exhaustive call sequences on real Message handles with a broker-boundary spy",
            "All sequences up to length 3 (4) of the six message-API actions on messages from every category and retry "
            "state on all brokers, and inside actors all sequences over add_callback (well-behaved or raising)/set_result/set_exception followed "
            "by each eager response: one action succeeds, later ones raise and cause no broker call, refusals leave the "
            "handle usable, callbacks in order with the store at the latest set_*, trailing code never runs, a retry "
            "through a handle without a delay is due at once.",
            FAKES, "DESIGN.md 4 C16"),
    "C17": ("model_checking", "scripted operation sequences x subscriber sets with a subscriber-free differential twin",
            "Every wrapped broker / bucket / consumer / actor-run operation is invoked with positional, keyword and mixed "
            "arguments and inside a full job lifecycle (one and two connections with workers on both) under 7 subscriber "
            "sets: ordered before/after signal log equals the operations made, arguments by name, owning connection only, "
            "nested operations silent, and results / broker calls / final state equal the subscriber-free twin.",
            FAKES, "DESIGN.md 4 C17"),
    "C08": ("exploration", "bounded-exhaustive enumeration of signatures x payloads x converters against a binding model",
            "All 688 (thorough: 3 400) signatures with up to 3 (4) parameters (three kinds, defaults, *args, **kwargs, dependency parameter) x "
            "all payloads (name subsets, 0-2 extras, '', '{}') x Basic / Pydantic / default selection, each through the real "
            "_Processor.actor_run: parameters get their entry or default, extras only in a catch-all, missing required "
            "parameter fails without entering the body, empty payload runs all-defaults actors, outputs round-trip "
            "(untyped and through int / list / dict / union / model return annotations); converters of other actors "
            "are built before every case (no state may be shared).",
            "Finite alphabet of int values; at most 3 parameters and 2 extras; not a proof over all signatures.", "DESIGN.md 4 C08"),
    "C19": ("exploration", "bounded-exhaustive enumeration of pure-function inputs under a pinned clock",
            "Default back-off over a 5x5x3x5 parameter grid x 82 retry numbers (monotone, within bounds, no exception); "
            "next execution time over 4 periods x 5 multiples x every microsecond within +-3 us and midpoints x 4 "
            "deferred_until settings x 3 time-base kinds (whole periods after the base, now < next <= now+period); expiry "
            "predicate of Parameters / buckets / Job at expiry -1us, 0, +1us, naive and aware.",
            "Grids, not all integers; cron excluded (croniter not installed).", "DESIGN.md 4 C19"),
    "C18": ("model_checking", "exhaustive enumeration of provider DAGs x flavours x override histories through the real resolver",
            "All provider graphs with <= 4 nodes (depth <= 3, fan-out <= 2, diamonds) x actor roots x sync/async/message "
            "flavours x payload parameters x override plans (before / between two jobs; fewer, more, other "
            "sub-dependencies) x both converters through _Processor.actor_run against a reference evaluation; every "
            "failing-provider placement through a real worker (body not entered, retry rules); bad declarations rejected.",
            "run_in_process providers excluded; in-memory broker for the worker cases.", "DESIGN.md 4 C18"),
    "C09": ("model_checking", "exhaustive matrix of duration assignments x limits x arrivals on real workers + enqueue sweep",
            "tasks_limit 1-3 x 1-2 queues x every assignment of 4 durations to 3-4 messages x failure pattern x arrival "
            "pattern x broker, a late message (same or second queue) enqueued at every loop iteration of the saturated "
            "window, and RabbitMQ cancelling the consumer server-side at every iteration: bodies in "
            "progress never exceed the limit on the full entry/exit log, every job executed within the bound, a free "
            "slot is refilled within 0.5 s.",
            FAKES + " Liveness as bounded response.", "DESIGN.md 4 C09"),
    "C11": ("model_checking", "exhaustive registration sequences (static maps) and registration x job sequences on real workers",
            "All 1884 registration sequences of length <= 3 over name x queue x holder against the model of "
            "Worker(routers=...) (actor map, topics_by_queue); all sequences of length <= 2 plus every re-registering "
            "length-3 sequence x job sequences x complementary second worker x tasks_limit x broker on real workers: which "
            "registration ran which id, foreign messages untouched and available to the worker that serves them.",
            FAKES + " The quick tier thins the Redis/RabbitMQ product by a fixed rotation.", "DESIGN.md 4 C11"),
    "C07": ("exploration", "bounded-exhaustive enumeration of values, settings, transports, codec grids and names",
            "19 argument values x 3 transports x 3 brokers through Job.enqueue -> consume -> worker -> actor; the full product "
            "of job settings x transports x brokers through enqueue -> consume with field-by-field comparison; "
            "decode(encode(x)) == x for all parameter / bucket codecs over timestamp x duration grids (incl. all powers of "
            "two of microseconds to 2^51 and 100 years +-1 us); all 584 strings of length <= 3 over an 8-letter alphabet as "
            "ids / names through validators and key encodings; two and three jobs with distinct arguments in flight at once.",
            FAKES + " Finite alphabets; payloads with the reserved bucket marker excluded.", "DESIGN.md 4 C07"),
    "C20": ("model_checking", "client byte strings, fragmentations, consumer failure and stop interleaved with a running worker on a virtual TCP model; loopback conformance",
            "Valid request, every truncation, wrong path / method, binary, oversized and pipelined requests x every 2-split "
            "(3-splits thorough) x simultaneous connections x 3 settings against a worker with the health server; consumer "
            "failure and stop swept over every loop iteration with a connection opened before: correct status for whole "
            "requests, 503 after a failure also on earlier connections, port open exactly while running, server still "
            "answers afterwards, jobs equal the traffic-free twin. The TCP model is replayed against the real server over loopback.",
            "Virtual TCP model (validated per request against a loopback socket); kernel-level behaviour not covered; in-memory broker.",
            "DESIGN.md 4 C20"),
}

PENDING_REASON = "not claimed"

ALL = [f"C{i:02d}" for i in range(1, 21)]


def build():
    checks = []
    for pid in ALL:
        if pid not in CLAIMED:
            continue
        level, technique, text, note, ref = CLAIMED[pid]
        checks.append(dict(
            property_id=pid,
            quick_cmd=f"./check {pid} quick",
            thorough_cmd=f"./check {pid} thorough",
            evidence_file=f"/verif/evidence/{pid}.json",
            replay_cmd_template=f"./check {pid} --replay {{path}}",
            engine="mc",
            level_claimed=dict(category=level, text=text, design_ref=ref),
            level_note=note,
            technique=technique,
        ))
    return dict(
        version=1,
        setup_cmd="./check selftest",
        hooks=dict(
            guard="REPID_VERIF",
            enable="no source hooks: the harness wraps instances and rebinds module globals at run time; "
                   "./check exports REPID_VERIF=1 for symmetry only",
            baseline_off_cmd="cd /repo && /venv/bin/python -m pytest -ra -q -p no:cacheprovider --timeout=900 "
                             "--continue-on-collection-errors",
            source_commits=[],
            add_only=True,
        ),
        engines=[dict(
            name="mc",
            path="/verif/mc",
            serves_properties=[c["property_id"] for c in checks],
            kind_free_text="stateless / explicit-state exploration of the real repid code under a deterministic "
                           "virtual-time asyncio loop with in-process models of Redis, RabbitMQ and TCP",
        )],
        checks=checks,
        not_applicable=[dict(property_id=p, reason=PENDING_REASON) for p in ALL if p not in CLAIMED],
        notes="Every check: exit 0 = held on everything explored, 1 = VIOLATION line(s), 2 = harness error. "
              "known_findings.json lists recorded defects; fixed entries suppress nothing.",
    )


if __name__ == "__main__":
    m = build()
    with open(os.path.join(ROOT, "MANIFEST.json"), "w") as f:
        json.dump(m, f, indent=1)
    print("MANIFEST.json:", len(m["checks"]), "checks,", len(m["not_applicable"]), "not claimed")
