"""Table-driven self-tests of the environment models (fake Redis / AMQP / TCP)."""


def run(verbose=False) -> int:
    bad = 0
    try:
        from . import fake_redis
    except ImportError:
        fake_redis = None
    if fake_redis is not None:
        bad += fake_redis.selftest(verbose)
    try:
        from . import fake_amqp
    except ImportError:
        fake_amqp = None
    if fake_amqp is not None:
        bad += fake_amqp.selftest(verbose)
    return bad
