"""C13 - The stored result is the outcome of the latest execution.

Cells: behaviour chains x returned values / exceptions x result storing on/off x result ttl x
bucket broker; for every cell every result-bucket call is a fault choice point (succeed / raise),
explored up to two faults; runs with faults are compared with their fault-free twin.
"""
import asyncio
import json
from datetime import timedelta

from repid import Job, MessageDependency
from repid.converter import BasicConverter

from ..explore import Acc, alternatives, digest
from ..harness import actor_log
from ..scenario import fixed_policy, run_worker
from ..vloop import CLOCK

ID = "C13"
LEVEL = "fault_enumeration"
RULE = ("full product of execution chain x value/exception x storing on/off x result ttl x bucket broker; within each "
        "cell every subset of at most two result-bucket calls fails; distinct and non-trivial = distinct (cell, fault "
        "set, stored result, dispositions)")
ASSUMPTIONS = [
    "Redis bucket broker on the in-process Redis model (SET with EXAT, GET honouring expiry)",
    "a failing bucket call raises ConnectionError before anything is written",
]


class AppError(Exception):
    def __str__(self):
        return "application said no"


class NoSubErrors(Exception):
    """An error collection without entries: an exception instance that is falsy."""

    def __len__(self):
        return 0

    def __str__(self):
        return "failed without sub-errors"


VALUES = {"none": None, "zero": 0, "str": "s", "nested": [1, {"a": None}], "float": {"k": 1.5}}
ERRORS = {"value": lambda: ValueError("boom"), "app": lambda: AppError(), "key": lambda: KeyError("k"),
          "falsy": lambda: NoSubErrors()}
# chain: list of per-execution outcomes of the victim job
CHAINS = {
    "ok": ["ok"],
    "fail": ["fail"],
    "timeout": ["timeout"],
    "fail-ok": ["fail", "ok"],  # retries=1
    "fail-fail": ["fail", "fail"],  # retries=1
    "ok-fail": ["ok", "fail"],  # recurring, two iterations
    "eager-ack-result": ["eager:ack:sr"],
    "eager-nack-exc": ["eager:nack:se"],
    "eager-ack-sr-se": ["eager:ack:sr+se"],
    "eager-reject-none": ["eager:ack:none"],
    # a user callback registered before the result was set raises when it runs; a retried chain whose second
    # execution does that must not keep the first execution's outcome
    "eager-ack-badcb-result": ["eager:ack:cbx+sr"],
    "fail-eager-nack-badcb-exc": ["fail", "eager:nack:cbx+se"],  # retries=1
}
TTLS = {"none": None, "day": 86400.0, "sec": 1.0}


def cells(tier):
    out = []
    bks = ["mem", "redis"]
    for bk, mb in [("mem", "mem"), ("redis", "mem"), ("redis", "redis"), ("mem", "amqp")]:
        for chain in CHAINS:
            for store in (True, False):
                for ttl in TTLS:
                    vals = list(VALUES) if chain in ("ok", "fail-ok") and store else ["nested"]
                    errs = list(ERRORS) if chain in ("fail", "fail-fail") and store else ["app"]
                    if not store and ttl != "none":
                        continue
                    if tier == "quick" and ttl == "sec" and chain not in ("ok", "fail"):
                        continue
                    if mb != "mem":
                        vals, errs = vals[:1], errs[:1]
                        if ttl == "sec":
                            continue
                    for v in vals:
                        for e in errs:
                            out.append(dict(bk=bk, mb=mb, chain=chain, store=store, ttl=ttl, val=v, err=e))
    # the process east / west of UTC: results with a time-to-live on both bucket brokers
    for bk in bks:
        for tz in (9, -5):
            for chain in ("ok", "fail"):
                for ttl in TTLS:
                    out.append(dict(bk=bk, mb="mem", chain=chain, store=True, ttl=ttl, val="nested", err="app", tz=tz))
    return out


def execute(cell, deviations):
    from ..vloop import local_zone

    with local_zone(cell.get("tz", 0)):  # bucket timestamps are naive local stamps
        return _execute(cell, deviations)


def _execute(cell, deviations):
    chain = CHAINS[cell["chain"]]
    retries = 1 if cell["chain"] in ("fail-ok", "fail-fail", "fail-eager-nack-badcb-exc") else 0
    recurring = cell["chain"] == "ok-fail"
    ttl = TTLS[cell["ttl"]]
    value = VALUES[cell["val"]]
    jobs_ = {}

    def configure(x):
        x.world.bucket_faults = True

    def build(x, worker):
        w = x.world
        count = {"victim": 0}

        async def victim(m: MessageDependency):
            k = count["victim"]
            count["victim"] += 1
            # further iterations of a recurring job repeat the last outcome, so "the latest
            # execution" stays well defined however many of them fit into the horizon
            step = chain[k] if k < len(chain) else (chain[-1] if recurring else "park")
            actor_log(w, "victim", "start", step)
            if step == "park":
                await asyncio.sleep(3600)
            if step == "ok":
                await asyncio.sleep(0.003)
                return value
            if step == "fail":
                await asyncio.sleep(0.003)
                raise ERRORS[cell["err"]]()
            if step == "timeout":
                await asyncio.sleep(100)
            _, action, sets = step.split(":")
            for s_ in sets.split("+"):
                if s_ == "cbx":
                    def bad_callback():
                        raise RuntimeError("user callback fails")
                    m.add_callback(bad_callback)
                elif s_ == "sr":
                    m.set_result(value)
                elif s_ == "se":
                    m.set_exception(ERRORS[cell["err"]]())
            await getattr(m, action)()

        async def bystander():
            actor_log(w, "bystander", "start")
            await asyncio.sleep(0.02)
            actor_log(w, "bystander", "ok")
            return "by"

        pol = fixed_policy(0.05)
        worker.actor(victim, name="victim", queue="q", converter=BasicConverter, retry_policy=pol)
        worker.actor(bystander, name="bystander", queue="q", converter=BasicConverter, retry_policy=pol)

    async def pre(x):
        conn = x.world.conn
        kw = dict(queue="q", _connection=conn, timeout=timedelta(seconds=1))
        if not cell["store"]:
            kw["store_result"] = False
        jobs_["victim"] = Job("victim", id_="victim", retries=retries, result_id="rv",
                              result_ttl=None if ttl is None else timedelta(seconds=ttl),
                              deferred_by=timedelta(seconds=1) if recurring else None, **kw)
        jobs_["bystander"] = Job("bystander", id_="bystander", result_id="rb", **kw)
        await jobs_["victim"].enqueue()
        await jobs_["bystander"].enqueue()

    got = {}

    def after(x, res):
        async def read():
            out = {}
            for name, j in jobs_.items():
                try:
                    b = await j.result
                except ConnectionError:
                    b = "unavailable"
                out[name] = b
            return out
        st, v = x.run(read())
        got["results"] = v if st == "ok" else repr(v)
        got["now"] = CLOCK.now()

    build.after = after
    horizon = 0.4 + (6.0 if recurring else 0) + (1.2 if "timeout" in chain else 0) + (2.6 if retries else 0) + \
        (1.0 if cell.get("mb") == "redis" else 0)
    res = run_worker(cell.get("mb", "mem"), build=build, messages=[], pre=pre, buckets="results", bucket_kind=cell["bk"],
                     stop_at=horizon, worker_kw=dict(graceful_shutdown_time=0.1, tasks_limit=2),
                     deviations=deviations, configure=configure, settle=0.3, max_iters=1_000_000)
    return res, got


def expected_bucket(cell):
    """(success, data, exception name) of the last finished execution."""
    chain = CHAINS[cell["chain"]]
    last = chain[-1]
    value = VALUES[cell["val"]]
    err = ERRORS[cell["err"]]()
    if last == "ok":
        return True, json.dumps(value, separators=(",", ":")), None
    if last == "fail":
        return False, str(err), type(err).__name__
    if last == "timeout":
        return False, None, "TimeoutError"
    sets = last.split(":")[2].split("+")
    if sets == ["none"]:
        return None
    if sets[-1] == "sr":
        return True, json.dumps(value, separators=(",", ":")), None
    return False, str(err), type(err).__name__


def judge(cell, res, got, base):
    viol = []
    if res.status != "ok":
        viol.append(("worker-died", f"Worker.run() ended with {res.status}: {res.value!r}"))
    stores = [r for r in res.log if r[1] == "bucket" and r[2] == "store_bucket"]
    faults = [r for r in res.log if r[1] == "bucket" and r[6] == "fault"]
    calls = [(r[3], r[2], r[5]["tried"] if r[5] else None) for r in res.log
             if r[1] == "call" and r[7] == 0 and r[2] != "enqueue"]
    places = {k: sorted(e["place"] for e in v) for k, v in res.obs.items() if not k.startswith("__")}
    by_done = any(r[1] == "actor" and r[3] == "bystander" and r[2] == "ok" for r in res.log)
    if not by_done:
        viol.append(("bystander", "the bystander job did not complete"))
    summary = dict(calls=calls, places=places, stores=len(stores), faults=len(faults))
    results = got.get("results")
    if not cell["store"]:
        if stores:
            viol.append(("write-when-disabled", f"results are disabled but {len(stores)} bucket writes happened"))
        return viol, summary
    if not isinstance(results, dict):
        viol.append(("result-read", f"reading Job.result failed: {results}"))
        return viol, summary
    b = results.get("victim")
    summary["victim_result"] = None if b is None or b == "unavailable" else dict(
        success=b.success, data=b.data, exception=b.exception)
    if base is None:
        # fault-free: the bucket holds exactly the outcome of the last finished execution
        want = expected_bucket(cell)
        ttl = TTLS[cell["ttl"]]
        if want is None:
            if b is not None:
                viol.append(("unexpected-result", f"no result was set but the bucket holds {summary['victim_result']}"))
        elif b is None or b == "unavailable":
            expired = ttl == 1.0
            if not expired:
                viol.append(("missing-result", f"Job.result is {b}, expected success={want[0]} data={want[1]!r}"))
        else:
            if b.success != want[0]:
                viol.append(("wrong-result", f"stored success={b.success}, expected {want[0]}"))
            if want[1] is not None and b.data != want[1]:
                viol.append(("wrong-result", f"stored data {b.data!r}, expected {want[1]!r}"))
            if b.exception != want[2]:
                viol.append(("wrong-result", f"stored exception name {b.exception!r}, expected {want[2]!r}"))
            if not (b.started_when <= b.finished_when):
                viol.append(("wrong-result", f"started_when {b.started_when} > finished_when {b.finished_when}"))
            bt = None if b.ttl is None else b.ttl.total_seconds()
            if bt != ttl:
                viol.append(("wrong-result", f"stored ttl {bt}, configured {ttl}"))
        rb = results.get("bystander")
        if rb is None or rb == "unavailable" or rb.data != '"by"':
            viol.append(("wrong-result", f"bystander result is {rb}"))
    else:
        # with faults: dispositions and final places as in the fault-free twin
        if calls != base["calls"]:
            viol.append(("disposition-changed", f"with {len(faults)} failing bucket call(s) the broker calls were {calls}, fault-free {base['calls']}"))
        if places != base["places"]:
            viol.append(("disposition-changed", f"with {len(faults)} failing bucket call(s) the final places are {places}, fault-free {base['places']}"))
    return viol, summary


def jobs(tier):
    cs = cells(tier)
    n = 4
    return [dict(cells=cs[i:i + n], bound=2) for i in range(0, len(cs), n)]


def run_job(job):
    acc = Acc()
    want = lambda l: l.startswith("fault:")
    for cell in job["cells"]:
        def one(dev, base):
            res, got = execute(cell, dev)
            viol, summary = judge(cell, res, got, base)
            acc.executions += 1
            acc.handles += res.handles
            acc.choice_points += len(res.points)
            acc.outcomes.add(digest([cell, dev, summary]))
            acc.phases["faults=%d" % len(dev or [])] += 1
            for sig, what in viol:
                acc.violations.append(dict(
                    signature=f"{cell.get('mb', 'mem')}/{cell['bk']} {sig}" + (" under-fault" if dev else ""),
                    what=what + f" [cell {cell}, faults {dev}]",
                    job=dict(cells=[cell], bound=0, dev=dev),
                    detail=summary,
                ))
            if len(acc.samples) < 2 and dev:
                acc.samples.append(dict(cell=cell, failing_calls=dev, observed=summary))
            return res, summary, viol

        if job.get("dev") is not None and job["bound"] == 0:
            res0, base, _ = one(None, None)
            one(job["dev"], base if job["dev"] else None)
            continue
        res0, base, v0 = one(None, None)
        if v0:
            continue

        def explore(dev, points, bound):
            for alt in alternatives(points, after=dev[-1][0] if dev else -1, want=want):
                d = dev + [alt]
                r, s, v = one(d, base)
                if bound > 1 and not v:
                    explore(d, r.points, bound - 1)

        explore([], res0.points, job["bound"])
    return acc.to_dict()
