#!/bin/bash
# Which lines of repid are never executed by the checks?  Development aid (not a registered command):
#   tools/repo_coverage.sh [tier] [checks...]   -> report in $OUT (default /root/cov)
# Blind spots found this way are listed in DESIGN.md section 6.
set -u
tier="${1:-quick}"; shift || true
checks="${*:-C01 C02 C03 C04 C05 C06 C07 C08 C09 C10 C11 C12 C13 C14 C15 C16 C17 C18 C19 C20}"
OUT="${OUT:-/root/cov}"
rm -rf "$OUT"; mkdir -p "$OUT"
cat > "$OUT/rc" <<RC
[run]
source = /repo/repid
concurrency = multiprocessing
parallel = True
data_file = $OUT/.coverage
sigterm = True
branch = False
[report]
show_missing = True
RC
cd /verif
export TZ=UTC PYTHONHASHSEED=0 PYTHONPATH=/repo:/verif PYTHONDONTWRITEBYTECODE=1 REPID_VERIF=1 COVERAGE_RCFILE="$OUT/rc"
cp -r evidence "$OUT/evidence.bak"
for c in $checks; do
  /venv/bin/python -m coverage run -m mc.run "$c" "$tier" | tail -1
done
rm -rf evidence; mv "$OUT/evidence.bak" evidence
/venv/bin/python -m coverage combine -q
/venv/bin/python -m coverage report > "$OUT/report.txt"
tail -n +1 "$OUT/report.txt"
