"""In-process model of a Redis server and a redis.asyncio-shaped client, limited to the commands
repid uses.  Semantics follow the Redis command reference.

Round trip model
  client:  await point before the send (a cancellation here: never sent)
           -> request registered at the server (from now on it WILL be executed, even if the
              client task is cancelled: the bytes are on the wire)
           -> await reply
  server:  at the select phase of every loop iteration the pending requests are applied, one
           atomic command (or MULTI/EXEC block) at a time, and their replies become I/O events.
           Which pending request goes next is a choice point (default: oldest first; a request
           may be "stalled" = overtaken by everything else that can happen at this instant).
"""
from __future__ import annotations

import asyncio
import fnmatch
from datetime import datetime

from ..vloop import CLOCK, HarnessError


def _b(v) -> bytes:
    if isinstance(v, bytes):
        return v
    if isinstance(v, str):
        return v.encode()
    if isinstance(v, bool):
        raise HarnessError("bool sent to redis")
    if isinstance(v, (int, float)):
        return repr(v).encode() if isinstance(v, float) else str(v).encode()
    raise HarnessError(f"unsupported redis value {type(v)}")


def _s(k) -> str:
    return k.decode() if isinstance(k, bytes) else str(k)


class WrongType(Exception):
    pass


class Store:
    """The data model: pure, synchronous, atomic commands."""

    def __init__(self, clock=None):
        self.d: dict[str, object] = {}
        self.t: dict[str, str] = {}
        self.exp: dict[str, int] = {}  # key -> unix seconds (EXAT)
        self.clock = clock or (lambda: CLOCK.time())

    # -- helpers
    def _expire(self, k: str) -> None:
        e = self.exp.get(k)
        if e is not None and self.clock() >= e:
            self.d.pop(k, None)
            self.t.pop(k, None)
            self.exp.pop(k, None)

    def _get(self, k, typ, create=False):
        k = _s(k)
        self._expire(k)
        if k not in self.d:
            if not create:
                return None
            self.d[k] = [] if typ == "list" else {}
            self.t[k] = typ
        if self.t[k] != typ:
            raise WrongType(f"WRONGTYPE {k} is {self.t[k]}, wanted {typ}")
        return self.d[k]

    def _gc(self, k) -> None:
        k = _s(k)
        if k in self.d and self.t[k] != "string" and not self.d[k]:
            del self.d[k]
            del self.t[k]
            self.exp.pop(k, None)

    def _zsorted(self, k):
        z = self._get(k, "zset") or {}
        return sorted(z.items(), key=lambda kv: (kv[1], kv[0]))

    # -- commands
    def ping(self):
        return True

    def get(self, k):
        v = self._get(k, "string")
        return v

    def set(self, k, v, exat=None):
        k = _s(k)
        self.d[k] = _b(v)
        self.t[k] = "string"
        self.exp.pop(k, None)
        if exat is not None:
            if isinstance(exat, datetime):
                exat = int(exat.timestamp())
            self.exp[k] = int(exat)
        return True

    def delete(self, *ks):
        n = 0
        for k in ks:
            k = _s(k)
            self._expire(k)
            if k in self.d:
                n += 1
                del self.d[k]
                del self.t[k]
                self.exp.pop(k, None)
        return n

    def lpush(self, k, *vs):
        l = self._get(k, "list", True)
        for v in vs:
            l.insert(0, _b(v))
        return len(l)

    def rpush(self, k, *vs):
        l = self._get(k, "list", True)
        for v in vs:
            l.append(_b(v))
        return len(l)

    def lrange(self, k, s, e):
        l = self._get(k, "list") or []
        n = len(l)
        if s < 0:
            s = max(n + s, 0)
        if e < 0:
            e = n + e
        if s > e or s >= n:
            return []
        return list(l[s : e + 1])

    def lrem(self, k, count, v):
        l = self._get(k, "list")
        if not l:
            return 0
        v = _b(v)
        removed = 0
        if count < 0:
            for i in range(len(l) - 1, -1, -1):
                if l[i] == v and removed < -count:
                    del l[i]
                    removed += 1
        else:
            i = 0
            while i < len(l):
                if l[i] == v and (count == 0 or removed < count):
                    del l[i]
                    removed += 1
                else:
                    i += 1
        self._gc(k)
        return removed

    def llen(self, k):
        return len(self._get(k, "list") or [])

    def zadd(self, k, mapping):
        z = self._get(k, "zset", True)
        n = 0
        for m, s in mapping.items():
            m = _b(m)
            n += m not in z
            z[m] = float(s)
        return n

    def zrem(self, k, *ms):
        z = self._get(k, "zset")
        if not z:
            return 0
        n = 0
        for m in ms:
            n += z.pop(_b(m), None) is not None
        self._gc(k)
        return n

    def zrange(self, k, start, end, byscore=False, offset=None, num=None, **kw):
        if kw:
            raise HarnessError(f"zrange options not modelled: {kw}")
        items = self._zsorted(k)
        if byscore:
            lo = float("-inf") if start in ("-inf", b"-inf") else float(start)
            hi = float("inf") if end in ("+inf", "inf", b"+inf") else float(end)
            ms = [m for m, s in items if lo <= s <= hi]
            if offset is not None:
                ms = ms[offset : offset + num] if num >= 0 else ms[offset:]
            return ms
        ms = [m for m, _ in items]
        n = len(ms)
        start, end = int(start), int(end)
        if start < 0:
            start = max(n + start, 0)
        if end < 0:
            end = n + end
        if start > end or start >= n:
            return []
        return ms[start : end + 1]

    def zscore(self, k, m):
        z = self._get(k, "zset") or {}
        return z.get(_b(m))

    def hset(self, k, key=None, value=None, mapping=None):
        h = self._get(k, "hash", True)
        n = 0
        if key is not None:
            n += _b(key) not in h
            h[_b(key)] = _b(value)
        for kk, vv in (mapping or {}).items():
            n += _b(kk) not in h
            h[_b(kk)] = _b(vv)
        return n

    def hsetnx(self, k, f, v):
        h = self._get(k, "hash", True)
        if _b(f) in h:
            return 0
        h[_b(f)] = _b(v)
        return 1

    def hget(self, k, f):
        h = self._get(k, "hash")
        return None if not h else h.get(_b(f))

    def hmget(self, k, keys):
        h = self._get(k, "hash") or {}
        return [h.get(_b(f)) for f in keys]

    def hdel(self, k, *fs):
        h = self._get(k, "hash")
        if not h:
            return 0
        n = 0
        for f in fs:
            n += h.pop(_b(f), None) is not None
        self._gc(k)
        return n

    def keys(self, match="*"):
        for k in list(self.d):
            self._expire(k)
        return [k.encode() for k in sorted(self.d) if fnmatch.fnmatchcase(k, match)]

    def zscan(self, k):
        return [(m, s) for m, s in self._zsorted(k)]


class Server:
    def __init__(self, loop, chooser=None):
        self.loop = loop
        self.chooser = chooser
        self.store = Store()
        self.pending: list = []  # [client, label, fn, fut, stalled]
        self.cmdlog: list = []
        self.reorder = False  # when True every pick among >1 pending requests is a choice point
        self.stall_choice = False  # when True each new request may be stalled (choice point)
        self.down = False  # server unreachable: requests fail with ConnectionError
        loop.select_hooks.append(self._pump)

    def submit(self, client: str, label: str, fn):
        fut = self.loop.create_future()
        stalled = False
        if self.stall_choice and self.chooser is not None:
            stalled = bool(self.chooser.choose(f"stall:{label.split('[')[0]}", 2))
        self.pending.append([client, label, fn, fut, stalled])
        return fut

    def _pump(self, loop) -> None:
        if not self.pending:
            return
        live = [p for p in self.pending if not p[4]]
        if not live:
            # only stalled requests are left: they go when nothing else can happen right now
            if loop._ready or loop._io:
                return
            live = self.pending[:1]
        while live:
            i = 0
            if self.reorder and len(live) > 1 and self.chooser is not None:
                i = self.chooser.choose("order:" + "|".join(p[1].split("[")[0] for p in live), len(live))
            p = live.pop(i)
            self.pending.remove(p)
            self._apply(p)

    def _apply(self, p) -> None:
        client, label, fn, fut, _ = p
        try:
            if self.down:
                raise ConnectionError("server down")
            res = fn()
        except BaseException as e:  # noqa: BLE001
            self.cmdlog.append((self.loop._ns, client, label, "ERR"))
            self.loop.post_io(_set_exc, fut, e)
            return
        self.cmdlog.append((self.loop._ns, client, label, "ok"))
        self.loop.post_io(_set_res, fut, res)

    def busy(self) -> bool:
        """Something is still on its way between client and server."""
        return bool(self.pending)

    def drain(self) -> None:
        """Apply everything already sent (used at a crash point: the server finishes what it got)."""
        while self.pending:
            self._apply(self.pending.pop(0))

    def kill_clients(self, clients) -> None:
        """The process owning these clients dies: what it has sent is still executed, its replies go
        nowhere, and nothing new leaves it."""
        for c in clients:
            c.dead = True
        self.drain()
        self.loop._io[:] = [h for h in self.loop._io
                            if not (h._callback in (_set_res, _set_exc))]

    # -- observation ------------------------------------------------------------------------
    def observe(self, world) -> dict:
        from repid.data._parameters import Parameters

        from ..world import params_view

        st = self.store
        out: dict = {}
        names_seen: dict[tuple, int] = {}
        hashes = {}
        for k in sorted(st.d):
            if k.startswith("m:") and st.t[k] == "hash":
                _, queue, prio, topic, id_ = k.split(":")
                hashes[(queue, int(prio), topic, id_)] = st.d[k]
        orphans = []

        def entry(place, queue, prio, short):
            topic, id_ = _s(short).split(":")
            h = hashes.get((queue, prio, topic, id_))
            names_seen[(queue, prio, topic, id_)] = names_seen.get((queue, prio, topic, id_), 0) + 1
            if h is None or b"parameters" not in h:
                orphans.append(f"{place}:{queue}:{prio}:{_s(short)} has no message data")
                out.setdefault(id_, []).append(dict(place=place, queue=queue, topic=topic, prio=prio,
                                                   params=None, payload=None))
                return
            out.setdefault(id_, []).append(dict(
                place=place, queue=queue, topic=topic, prio=prio,
                params=params_view(Parameters.decode(h[b"parameters"].decode())),
                payload=h.get(b"payload", b"").decode(),
                reject_to=None if b"_reject_to" not in h else h[b"_reject_to"].decode(),
            ))

        proc = st.d.get("processing", {}) if st.t.get("processing") == "zset" else {}
        for k in sorted(st.d):
            if not k.startswith("q:"):
                continue
            _, queue, prio, marker = k.split(":")
            prio = int(prio)
            if marker == "n":
                for short in st.d[k]:
                    entry("waiting", queue, prio, short)
            elif marker == "d":
                for short, _score in sorted(st.d[k].items(), key=lambda kv: (kv[1], kv[0])):
                    entry("delayed", queue, prio, short)
            elif marker == "dead":
                for short in st.d[k]:
                    entry("dead", queue, prio, short)
        for short in sorted(proc):
            # the processing set does not say which queue: find the hash
            topic, id_ = _s(short).split(":")
            cands = [hk for hk in hashes if hk[2] == topic and hk[3] == id_]
            if not cands:
                orphans.append(f"processing:{_s(short)} has no message data")
                out.setdefault(id_, []).append(dict(place="held", queue=None, topic=topic, prio=None,
                                                   params=None, payload=None))
                continue
            for (queue, prio, topic, id_) in cands:
                entry("held", queue, prio, short)
        leaks = []
        for hk in hashes:
            if hk not in names_seen:
                leaks.append("m:%s:%d:%s:%s" % hk)
        if orphans:
            out["__orphans__"] = orphans
        if leaks:
            out["__leaks__"] = leaks
        return out


def _set_res(fut, res):
    if not fut.done():
        fut.set_result(res)


def _set_exc(fut, exc):
    if not fut.done():
        fut.set_exception(exc)


class Pipeline:
    def __init__(self, client, transaction=True):
        if not transaction:
            raise HarnessError("non-transactional pipelines are not modelled")
        self.c = client
        self.q: list = []

    async def __aenter__(self):
        return self

    async def __aexit__(self, *exc):
        self.q = []

    def _queue(self, name, *a, **kw):
        self.q.append((name, a, kw))
        return self

    def __getattr__(self, name):
        if name in Client.COMMANDS:
            return lambda *a, **kw: self._queue(name, *a, **kw)
        raise AttributeError(name)

    async def execute(self):
        q, self.q = self.q, []
        store = self.c.s.store

        def run():
            return [getattr(store, n)(*a, **kw) for n, a, kw in q]

        return await self.c._rt("MULTI[" + ",".join(f"{n}:{_s(a[0]) if a else ''}" for n, a, _ in q) + "]", run)


class Client:
    COMMANDS = ("get", "set", "delete", "lpush", "rpush", "lrange", "lrem", "llen", "zadd", "zrem",
                "zrange", "zscore", "hset", "hsetnx", "hget", "hmget", "hdel")

    def __init__(self, server: Server, name: str = "c"):
        self.s = server
        self.name = name
        self.fail_next: list = []  # fault injection: exceptions to raise instead of sending
        self.dead = False  # the client process has died: nothing leaves it any more

    async def _rt(self, label: str, fn):
        await asyncio.sleep(0)  # connection checkout / drain: cancellable, nothing sent yet
        if self.dead:
            await asyncio.get_running_loop().create_future()  # never
        if self.fail_next:
            exc = self.fail_next.pop(0)
            if exc is not None:
                raise exc
        return await self.s.submit(self.name, label, fn)

    def pipeline(self, transaction=True):
        return Pipeline(self, transaction)

    async def ping(self):
        return await self._rt("PING", self.s.store.ping)

    async def aclose(self, close_connection_pool=True):
        return None

    def __getattr__(self, name):
        if name in Client.COMMANDS:
            store = self.s.store

            async def f(*a, **kw):
                key = _s(a[0]) if a else ""
                return await self._rt(f"{name.upper()}[{key}]", lambda: getattr(store, name)(*a, **kw))

            f.__name__ = name
            return f
        raise AttributeError(name)

    async def scan_iter(self, match="*"):
        for k in await self._rt(f"SCAN[{match}]", lambda: self.s.store.keys(match)):
            yield k

    async def zscan_iter(self, name):
        for it in await self._rt(f"ZSCAN[{name}]", lambda: self.s.store.zscan(name)):
            yield it


def make_broker(server: Server, name: str):
    from repid.connections.redis.message_broker import RedisMessageBroker

    b = RedisMessageBroker("redis://fake.invalid:1/0")
    b.conn = Client(server, name)
    return b


def make_bucket_broker(server: Server, name: str, *, result: bool):
    from repid.connections.redis.bucket_broker import RedisBucketBroker

    b = RedisBucketBroker("redis://fake.invalid:1/0", use_result_bucket=result)
    b.conn = Client(server, name)
    return b


# --------------------------------------------------------------------------------------
# self-test of the command semantics (table from the Redis command reference)
# --------------------------------------------------------------------------------------
def selftest(verbose=False) -> int:
    now = [1000.0]
    s = Store(clock=lambda: now[0])
    T = [
        (lambda: s.lpush("l", "a"), 1), (lambda: s.lpush("l", "b"), 2), (lambda: s.rpush("l", "c"), 3),
        (lambda: s.lrange("l", 0, -1), [b"b", b"a", b"c"]),
        (lambda: s.lrange("l", -10, -1), [b"b", b"a", b"c"]),
        (lambda: s.lrange("l", -2, -1), [b"a", b"c"]),
        (lambda: s.lrange("l", -20, -11), []),
        (lambda: s.lrange("l", 5, 9), []),
        (lambda: s.lpush("l", "a"), 4),  # a b a c
        (lambda: s.lrem("l", -1, "a"), 1),  # removes the one nearest the tail
        (lambda: s.lrange("l", 0, -1), [b"a", b"b", b"c"]),
        (lambda: s.lrem("l", -1, "zz"), 0),
        (lambda: s.lrem("l", 0, "a"), 1), (lambda: s.lrem("l", 1, "b"), 1), (lambda: s.lrem("l", -1, "c"), 1),
        (lambda: s.keys("*"), []),  # emptied list is deleted
        (lambda: s.zadd("z", {"m1": "5"}), 1), (lambda: s.zadd("z", {"m1": "3", "m0": "3"}), 1),
        (lambda: s.zrange("z", 0, -1), [b"m0", b"m1"]),
        (lambda: s.zrange("z", "-inf", 2, byscore=True, offset=0, num=10), []),
        (lambda: s.zrange("z", "-inf", 3, byscore=True, offset=0, num=10), [b"m0", b"m1"]),
        (lambda: s.zrange("z", "-inf", 3, byscore=True, offset=1, num=10), [b"m1"]),
        (lambda: s.zrange("z", 0, 0), [b"m0"]), (lambda: s.zrange("z", 10, 19), []),
        (lambda: s.zrem("z", "m0"), 1), (lambda: s.zrem("z", "m0"), 0), (lambda: s.zrem("z", "m1"), 1),
        (lambda: s.keys("*"), []),
        (lambda: s.hsetnx("h", "f", "1"), 1), (lambda: s.hsetnx("h", "f", "2"), 0),
        (lambda: s.hget("h", "f"), b"1"),
        (lambda: s.hset("h", mapping={"f": "3", "g": "4"}), 1),
        (lambda: s.hmget("h", ["f", "g", "x"]), [b"3", b"4", None]),
        (lambda: s.hset("h", key="k", value="v"), 1),
        (lambda: s.hdel("h", "f"), 1), (lambda: s.hdel("h", "f"), 0), (lambda: s.hdel("h", "g", "k"), 2),
        (lambda: s.hget("h", "f"), None), (lambda: s.keys("*"), []),
        (lambda: s.set("s", "v", exat=1002), True), (lambda: s.get("s"), b"v"),
        (lambda: now.__setitem__(0, 1001.99) or s.get("s"), b"v"),
        (lambda: now.__setitem__(0, 1002.0) or s.get("s"), None),
        (lambda: s.set("s", "v"), True), (lambda: s.delete("s"), 1), (lambda: s.delete("s"), 0),
        (lambda: (s.hset("m:q:5:t:i", key="a", value="b"), s.lpush("q:q:5:n", "t:i"), s.keys("m:q:*"))[2], [b"m:q:5:t:i"]),
        (lambda: s.keys("q:q:*"), [b"q:q:5:n"]),
    ]
    bad = 0
    for i, (fn, want) in enumerate(T):
        got = fn()
        if got != want:
            bad += 1
            print(f"fake redis self-test row {i}: got {got!r}, want {want!r}")
    try:
        s.lpush("m:q:5:t:i", "x")
        bad += 1
        print("fake redis self-test: WRONGTYPE not raised")
    except WrongType:
        pass
    if verbose:
        print(f"fake redis: {len(T) + 1} rows, {bad} bad")
    return bad
